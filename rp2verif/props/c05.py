"""C05 - long-term vs short-term classification follows the holding period.

Boundary grid: acquisition instants x deltas around the country's threshold x UTC-offset pairs x country configs;
single lot + sale, two lots straddling the threshold + one sale, and earn events.
"""
from __future__ import annotations

import itertools
import time
from datetime import datetime, timedelta, timezone
from fractions import Fraction
from typing import Any, Dict, Iterator, List, Optional, Sequence, Tuple

from rp2verif import common
from rp2verif import history as H
from rp2verif.common import Stats
from rp2verif.models.lots import F

PROP = "C05"
LEVEL = "exploration"

ACQ = [
    datetime(2019, 3, 1, 0, 0, 0, tzinfo=timezone.utc),
    datetime(2019, 12, 31, 23, 59, 59, tzinfo=timezone.utc),
    datetime(2020, 2, 28, 8, 30, 0, tzinfo=timezone.utc),
    datetime(2020, 2, 29, 0, 0, 1, tzinfo=timezone.utc),
    datetime(2020, 3, 1, 18, 0, 0, tzinfo=timezone.utc),
    datetime(2023, 6, 15, 12, 0, 0, tzinfo=timezone.utc),
]
OFFSETS = [0, 14 * 60, -12 * 60, 330, -210]  # incl. half-hour offsets east (+05:30) and west (-03:30) of Greenwich
# (country code, LONG_TERM_CAPITAL_GAINS for generic, expected period in days or None = never long-term)
COUNTRIES: List[Tuple[str, Optional[int], Optional[int]]] = [
    ("us", None, 365),
    ("es", None, 365),
    ("jp", None, None),
    ("ie", None, None),
    ("generic", 0, 0),
    ("generic", 1, 1),
    ("generic", 30, 30),
    ("generic", 365, 365),
    ("generic", 366, 366),
    ("generic", 730, 730),
]


# thorough tier: the first and the last second of every month of 2019 and 2020 (a leap year) as acquisition instants, more offsets (incl. half-hour
# ones), more generic thresholds, finer deltas around the threshold (milliseconds to hours), and gift / fee / transfer-fee disposals
ACQ_THOROUGH = ACQ + [datetime(y, m, 1, 0, 0, 0, tzinfo=timezone.utc) for y in (2019, 2020) for m in range(1, 13)] + \
    [datetime(y, m, 1, 0, 0, 0, tzinfo=timezone.utc) - timedelta(seconds=1) for y in (2020, 2021) for m in range(1, 13)]
OFFSETS_THOROUGH = OFFSETS + [540, -300, 60, -570]
COUNTRIES_THOROUGH = COUNTRIES + [("generic", n, n) for n in (2, 7, 90, 364, 1000)]


def deltas(period: int, tier: str = "quick") -> List[Tuple[str, timedelta]]:
    p = timedelta(days=period)
    out = [
        ("P-1d", p - timedelta(days=1)),
        ("P-1s", p - timedelta(seconds=1)),
        ("P", p),
        ("P+1s", p + timedelta(seconds=1)),
        ("P+1d", p + timedelta(days=1)),
        ("0", timedelta(0)),
        ("2P", 2 * p),
        ("P+12h", p + timedelta(hours=12)),
        ("P-12h", p - timedelta(hours=12)),
    ]
    if tier == "thorough":
        out += [
            ("P-250ms", p - timedelta(milliseconds=250)), ("P+250ms", p + timedelta(milliseconds=250)), ("P-1min", p - timedelta(minutes=1)),
            ("P+1min", p + timedelta(minutes=1)), ("P-1h", p - timedelta(hours=1)), ("P+1h", p + timedelta(hours=1)),
            ("P+1d-1s", p + timedelta(days=1) - timedelta(seconds=1)), ("P-1d+1s", p - timedelta(days=1) + timedelta(seconds=1)), ("3P+1s", 3 * p + timedelta(seconds=1)),
        ]
    return [(n, d) for n, d in out if d >= timedelta(0)]


def expected_long(lot_dt: datetime, ev_dt: datetime, period: Optional[int]) -> bool:
    if period is None:
        return False
    secs = Fraction(ev_dt.timestamp()).limit_denominator(10**6) - Fraction(lot_dt.timestamp()).limit_denominator(10**6)
    return (secs // 86400) >= period


def cases(tier: str) -> Iterator[Dict[str, Any]]:
    offs = OFFSETS_THOROUGH if tier == "thorough" else OFFSETS
    n = 0
    for (cc, lt, period), acq in itertools.product(COUNTRIES_THOROUGH if tier == "thorough" else COUNTRIES, ACQ_THOROUGH if tier == "thorough" else ACQ):
        grid_period = period if period is not None else 365
        for (dn, d), o1, o2 in itertools.product(deltas(grid_period, tier), offs, offs):
            ev = acq + d
            n += 1
            kind = ("SELL", "GIFT", "FEE", "MOVE")[n % 4] if tier == "thorough" else "SELL"
            if kind == "MOVE":
                event = {"table": "intra", "timestamp": H.ts_str(ev, o2), "from_exchange": "X1", "from_holder": "H1", "to_exchange": "X2", "to_holder": "H1", "spot_price": "12",
                         "crypto_sent": "1", "crypto_received": "0.5", "row": 11}
            elif kind == "FEE":
                event = {"table": "out", "timestamp": H.ts_str(ev, o2), "exchange": "X1", "holder": "H1", "transaction_type": "FEE", "spot_price": "12", "crypto_out_no_fee": "0",
                         "crypto_fee": "1", "row": 11}
            else:
                event = {"table": "out", "timestamp": H.ts_str(ev, o2), "exchange": "X1", "holder": "H1", "transaction_type": kind, "spot_price": "12", "crypto_out_no_fee": "1",
                         "crypto_fee": "0", "row": 11}
            specs = [
                {"table": "in", "timestamp": H.ts_str(acq, o1), "exchange": "X1", "holder": "H1", "transaction_type": "BUY",
                 "spot_price": "10", "crypto_in": "2", "row": 10},
                event,
            ]
            yield {"shape": "one lot" if kind == "SELL" else f"one lot, {kind.lower()} disposal", "country": cc, "lt": lt, "period": period, "delta": dn, "specs": specs}
        # two lots straddling the threshold, one sale spanning both (fifo): lot A reaches the period, lot B misses it by one second
        for o1, o2 in itertools.product(offs, offs):
            if grid_period == 0:
                continue
            p = timedelta(days=grid_period)
            lot_b = acq + timedelta(seconds=1)
            ev = acq + p
            specs = [
                {"table": "in", "timestamp": H.ts_str(acq, o1), "exchange": "X1", "holder": "H1", "transaction_type": "BUY",
                 "spot_price": "10", "crypto_in": "1", "row": 10},
                {"table": "in", "timestamp": H.ts_str(lot_b, o2), "exchange": "X1", "holder": "H1", "transaction_type": "BUY",
                 "spot_price": "11", "crypto_in": "1", "row": 11},
                {"table": "out", "timestamp": H.ts_str(ev, o1), "exchange": "X1", "holder": "H1", "transaction_type": "SELL",
                 "spot_price": "12", "crypto_out_no_fee": "2", "crypto_fee": "0", "row": 12},
            ]
            yield {"shape": "straddling sale", "country": cc, "lt": lt, "period": period, "delta": "P / P-1s", "specs": specs}
        # earn event: never long-term, also when a very old lot exists
        for typ, o1 in itertools.product(("INTEREST", "STAKING", "WAGES"), offs):
            specs = [
                {"table": "in", "timestamp": H.ts_str(acq, o1), "exchange": "X1", "holder": "H1", "transaction_type": "BUY",
                 "spot_price": "10", "crypto_in": "1", "row": 10},
                {"table": "in", "timestamp": H.ts_str(acq + timedelta(days=2 * max(grid_period, 1)), o1), "exchange": "X1", "holder": "H1",
                 "transaction_type": typ, "spot_price": "11", "crypto_in": "1", "row": 11},
            ]
            yield {"shape": "earn event", "country": cc, "lt": lt, "period": period, "delta": "2P", "specs": specs}


def front_end_cases() -> Iterator[Dict[str, Any]]:
    """The same boundary through the spreadsheet front end (parse_ods): sub-second instants, lots bought with and without a
    crypto fee (the parser rebuilds such a lot and must keep its exact instant)."""
    for cc, period in (("us", 365), ("es", 365)):
        p = timedelta(days=period)
        for acq in (datetime(2019, 3, 1, 0, 0, 0, 750000, tzinfo=timezone.utc), datetime(2020, 2, 29, 23, 59, 59, 250000, tzinfo=timezone.utc)):
            for dn, d in (("P-0.5s", p - timedelta(milliseconds=500)), ("P-0.25s", p - timedelta(milliseconds=250)), ("P", p), ("P+0.5s", p + timedelta(milliseconds=500)),
                          ("P-1s", p - timedelta(seconds=1))):
                for o1, o2 in ((0, 0), (330, -12 * 60)):
                    for fee in (None, "0.125"):
                        ev = acq + d
                        lot = {"table": "in", "timestamp": H.ts_str(acq, o1), "exchange": "X1", "holder": "H1", "transaction_type": "BUY", "spot_price": "10",
                               "crypto_in": "2", "row": 0, "sym": "", "unique_id": "lot"}
                        if fee:
                            lot["crypto_fee"] = fee
                        specs = [lot, {"table": "out", "timestamp": H.ts_str(ev, o2), "exchange": "X1", "holder": "H1", "transaction_type": "SELL", "spot_price": "12",
                                       "crypto_out_no_fee": "1", "crypto_fee": "0", "row": 1, "sym": "", "unique_id": "sale"}]
                        yield {"shape": "spreadsheet front end" + (", crypto-fee lot" if fee else ""), "country": cc, "lt": None, "period": period, "delta": dn, "specs": specs,
                               "via_parser": True}


def run_front_end(case: Dict[str, Any]) -> Tuple[Any, Dict[str, Any]]:
    from rp2verif import frdriver as D
    from rp2verif.seams import compute as C
    from rp2verif.seams import parser as P

    matrix, specs = D.to_sheet(case["specs"], "B1")
    cfg = P.config_for(P.canonical_layout(), case["country"])
    data = P.parse_ods(cfg, "B1", P.build_doc({"B1": matrix}))
    computed = C.compute_tax(cfg, C.engine(((1970, "fifo"),)), data)
    return computed, dict(case, specs=specs)


def report_cases() -> List[Dict[str, Any]]:
    """What the reader sees: the LONG/SHORT column of rp2_full_report.ods and tax_report_us.ods for one lot consumed by consecutive
    disposals on both sides of the threshold, and for one disposal spanning lots on both sides."""
    out = []
    t0 = datetime(2020, 1, 10, 9, 0, 0, tzinfo=timezone.utc)

    def ts(d: timedelta) -> str:
        return H.ts_str(t0 + d)

    def buy(n: int, d: timedelta, amount: str) -> Dict[str, Any]:
        return {"table": "in", "timestamp": ts(d), "exchange": "X1", "holder": "H1", "transaction_type": "BUY", "spot_price": "10", "crypto_in": amount, "row": n, "sym": "", "unique_id": f"lot{n}"}

    def sell(n: int, d: timedelta, amount: str, typ: str = "SELL") -> Dict[str, Any]:
        return {"table": "out", "timestamp": ts(d), "exchange": "X1", "holder": "H1", "transaction_type": typ, "spot_price": "12", "crypto_out_no_fee": amount, "crypto_fee": "0", "row": n,
                "sym": "", "unique_id": f"ev{n}"}

    day = timedelta(days=1)
    for days in ((152, 397, 425), (364, 365, 366), (400, 100 + 365, 30)):
        specs = [buy(0, timedelta(0), "3")] + [sell(1 + i, d * day, "1", ("SELL", "GIFT", "SELL")[i]) for i, d in enumerate(sorted(days))]
        out.append({"shape": "report: one lot, disposals on both sides of the threshold", "specs": specs})
    for second_lot_day in (1, 200, 364):
        specs = [buy(0, timedelta(0), "1"), buy(1, second_lot_day * day, "1"), buy(2, (second_lot_day + 1) * day, "1"), sell(3, 365 * day + timedelta(seconds=1), "2.5")]
        out.append({"shape": "report: one disposal over lots on both sides of the threshold", "specs": specs})

    def move(n: int, d: timedelta, sent: str, received: str) -> Dict[str, Any]:
        return {"table": "intra", "timestamp": ts(d), "from_exchange": "X1", "from_holder": "H1", "to_exchange": "X2", "to_holder": "H1", "spot_price": "11", "crypto_sent": sent,
                "crypto_received": received, "row": n, "sym": "", "unique_id": f"ev{n}"}

    # disposals that do not come from the OUT table: the fee of a transfer (short and long holding), and income (never long-term)
    for fee_days in ((100, 400), (364, 365), (366, 800)):
        specs = [buy(0, timedelta(0), "3"), move(1, fee_days[0] * day, "1", "0.9"), move(2, fee_days[1] * day, "1", "0.8"),
                 dict(buy(3, 500 * day, "0.5"), transaction_type="INTEREST"), sell(4, 900 * day, "1")]
        out.append({"shape": "report: transfer fees on both sides of the threshold, income", "specs": specs})
    return out


def report_worker(chunk: List[Dict[str, Any]]) -> Stats:
    from rp2verif import frdriver as D
    from rp2verif import odsread as O
    from rp2verif.seams import generator as G

    st = Stats()
    for case in chunk:
        for method in ("fifo", "lifo"):
            st.inc("evaluations")
            st.inc(f"shape: {case['shape']}")
            st.inc("distinct_nontrivial")
            matrix, specs = D.to_sheet(case["specs"], "B1")
            res = G.run({"assets": {"B1": specs}, "sheets": {"B1": matrix}, "schedule": [(1970, method)], "from": None, "to": None, "country": "us", "lang": "en",
                         "reports": ["rp2_full_report", "tax_report_us"], "allow_negative": True})
            base = {"shape": case["shape"], "country": "us", "lt": None, "period": 365, "delta": method, "specs": case["specs"], "report": True}
            if res["error"]:
                st.violation(dict(base, signature="C05 report: no report", what=f"{case['shape']} / {method}: {res['error'][:200]}"))
                continue
            want = {}
            for w in res["dumps"]["B1"]["detail"]:
                long_ = w["lot"] is not None and expected_long(w["lot_ts"], w["event_ts"], 365)
                want[(w["event_uid"], w["lot_uid"])] = "LONG" if long_ else "SHORT"
            full = next(v for k, v in res["files"].items() if k.endswith("rp2_full_report.ods"))["B1 Tax"]
            hits = O.find_rows(full, "Gain / Loss Detail")
            _s, idx = O.table_after(full, hits[0], key_col=1)
            got_full = {(O.plain(O.cell(full, i, 10)), O.plain(O.cell(full, i, 18)) if not O.is_blank(O.plain(O.cell(full, i, 18))) else None): O.plain(O.cell(full, i, 4)) for i in idx}
            tax = next(v for k, v in res["files"].items() if k.endswith("tax_report_us.ods"))
            got_tax = {}
            for sheet, rows in tax.items():
                if sheet == "Legend":
                    continue
                for i in range(7, len(rows)):
                    if not O.is_blank(O.cell(rows, i, 1)):
                        got_tax[(O.cell(rows, i, 13), O.cell(rows, i, 11) or None)] = O.cell(rows, i, 14)
            for what, got in (("rp2_full_report", got_full), ("tax_report_us", got_tax)):
                if got != want:
                    bad = sorted(str(k) for k in set(got) | set(want) if got.get(k) != want.get(k))
                    st.violation(dict(base, signature=f"C05 report: {what} LONG/SHORT column", what=f"{case['shape']} / {method}: {what} shows {got.get(eval(bad[0]))} for fraction {bad[0]}, "
                                      f"its holding period says {want.get(eval(bad[0]))}"))
    return st


def report_init() -> None:
    from rp2verif.props import c13

    c13.init()


def check_case(case: Dict[str, Any], computed: Any) -> List[str]:
    from rp2verif.models.lots import parse_ts

    by_row = {s["row"]: s for s in case["specs"]}
    problems: List[str] = []
    exp_lines: Dict[Tuple[int, str, bool], Fraction] = {}
    for gl in computed.gain_loss_set:
        if gl.taxable_event.row not in by_row:
            continue  # the artificial fee disposal the parser adds for a crypto-fee purchase (C11 checks it)
        ev_dt = parse_ts(by_row[gl.taxable_event.row]["timestamp"])
        if gl.acquired_lot is None:
            want = False
        else:
            want = expected_long(parse_ts(by_row[gl.acquired_lot.row]["timestamp"]), ev_dt, case["period"])
        got = gl.is_long_term_capital_gains()
        if got != want:
            problems.append(
                f"fraction {gl.taxable_event.row}->{gl.acquired_lot.row if gl.acquired_lot else None} classified "
                f"{'LONG' if got else 'SHORT'}, expected {'LONG' if want else 'SHORT'} (country {case['country']}"
                f"{'' if case['lt'] is None else ' LONG_TERM_CAPITAL_GAINS=' + str(case['lt'])}, delta {case['delta']})"
            )
        key = (ev_dt.year, gl.taxable_event.transaction_type.value, want)
        exp_lines[key] = exp_lines.get(key, Fraction(0)) + F(gl.crypto_amount)
    got_lines = {(y.year, y.transaction_type.value, y.is_long_term_capital_gains): F(y.crypto_amount) for y in computed.yearly_gain_loss_list
                 if not (case.get("via_parser") and y.transaction_type.value == "fee")}
    if not problems and got_lines != exp_lines:
        problems.append(f"yearly summary does not split long/short as the fractions: {sorted(got_lines.items())} vs {sorted(exp_lines.items())}")
    return problems


def worker(task: Tuple[str, int, int]) -> Stats:
    from rp2verif.seams import compute as C

    tier, k, n = task
    st = Stats()
    for idx, case in enumerate(itertools.chain(cases(tier), front_end_cases())):
        if idx % n != k:
            continue
        st.inc("evaluations")
        st.inc(f"shape: {case['shape']}")
        base = {k2: case[k2] for k2 in ("shape", "country", "lt", "period", "delta", "specs", "via_parser") if k2 in case}
        if case.get("via_parser"):
            try:
                computed, case = run_front_end(case)
                out, err = C.Outcome(computed, None, None), None
            except Exception as exc:  # pylint: disable=broad-except
                out, err = None, exc
        else:
            cfg = C.configuration(case["country"], allow_negative_balances=True, long_term_days=case["lt"])
            try:
                out = C.run(case["specs"], ((1970, "fifo"),), cfg)
                err = out.error
            except Exception as exc:  # pylint: disable=broad-except
                out, err = None, exc
        if err is not None:
            st.violation(dict(base, signature=f"C05 valid input rejected / {type(err).__name__}", what=f"{case['shape']}: {type(err).__name__}: {err}"))
            continue
        problems = check_case(case, out.computed)
        if case["delta"] in ("P-1s", "P", "P+1s", "P / P-1s", "P-12h", "P+12h", "P-0.5s", "P-0.25s", "P+0.5s"):
            st.inc("distinct_nontrivial")
        if problems:
            st.violation(dict(base, signature=f"C05 classification / {case['country']} / {case['shape']} / {case['delta']}", what=problems[0], problems=problems))
        elif case["shape"] == "straddling sale":
            st.sample({"country": case["country"], "LONG_TERM_CAPITAL_GAINS": case["lt"], "specs": [{k2: s[k2] for k2 in ("table", "timestamp", "row")} for s in case["specs"]],
                       "flags": [(gl.taxable_event.row, gl.acquired_lot.row if gl.acquired_lot else None, gl.is_long_term_capital_gains()) for gl in out.computed.gain_loss_set]}, cap=1)
    return st


def main(tier: str, budget_s: Optional[float] = None) -> int:
    t0 = time.time()
    deadline = t0 + (budget_s or 600)
    n = 32
    results, done = common.pmap(worker, [(tier, k, n) for k in range(n)], deadline=deadline)
    total = Stats()
    for r in results:
        if r is not None:
            total.merge(r)
    rc = report_cases()
    rres, rdone = common.pmap(report_worker, [[c] for c in rc], deadline=deadline, init=report_init)
    for r in rres:
        if r is not None:
            total.merge(r)
    complete = done == n and rdone == len(rc)
    new, matched = common.report(PROP, total.violations)
    coverage = {
        "evaluations": total.get("evaluations"),
        "distinct_nontrivial": total.get("distinct_nontrivial"),
        "rule": (
            (f"grid of {len(ACQ_THOROUGH)} acquisition instants (first and last second of every month of 2019-2020, leap day, year end) x 18 deltas around the threshold P "
               f"(250 ms .. 1 day on both sides, 0, 2P, 3P+1s) x {len(OFFSETS_THOROUGH) ** 2} UTC-offset pairs x {len(COUNTRIES_THOROUGH)} country configurations, the disposal rotating "
               "over sale / gift / fee / transfer fee, plus" if tier == "thorough" else
               "grid of 6 acquisition instants (leap day, year end) x 9 deltas around the threshold P (P-1d, P-12h, P-1s, P, P+1s, P+12h, P+1d, 0, 2P) "
               "x 25 UTC-offset pairs x 10 country configurations, plus") + " a sale straddling the threshold over two lots, earn events, and the boundary through the "
            "spreadsheet front end with sub-second instants (P-0.5s, P-0.25s, P, P+0.5s) for lots bought with and without a crypto fee, and the LONG/SHORT "
            "column of rp2_full_report.ods / tax_report_us.ods read back for lots and disposals on both sides of the threshold; "
            "distinct by construction; non-trivial = within 12 hours of the threshold"
        ),
        "countries": [f"{c}{'' if lt is None else '/' + str(lt)}" for c, lt, _ in (COUNTRIES_THOROUGH if tier == "thorough" else COUNTRIES)],
        "offset_minutes": OFFSETS_THOROUGH if tier == "thorough" else OFFSETS,
        "per_shape": {k[7:]: v for k, v in sorted(total.counters.items()) if k.startswith("shape: ")},
        "exhaustive": bool(complete),
        "violations_total": total.get("violations_total"),
        "known_finding_hits": matched,
        "samples": total.samples[:4],
    }
    common.write_evidence(PROP, tier, LEVEL, coverage, time.time() - t0, new, assumptions=[
        "thresholds other than the listed LONG_TERM_CAPITAL_GAINS values and instants outside the grid are not covered",
    ])
    print(f"{PROP} {tier}: evaluations={total.get('evaluations')} boundary={total.get('distinct_nontrivial')} violations={total.get('violations_total')} "
          f"(unlisted {new}) exhaustive={complete} wall={time.time() - t0:.1f}s")
    return 1 if new else 0


def replay(path: str) -> int:
    import json

    from rp2verif.seams import compute as C

    with open(path, encoding="utf-8") as f:
        case = json.load(f)
    if case.get("report"):
        import multiprocessing as mp

        with mp.get_context("fork").Pool(1, initializer=report_init) as pool:
            st = pool.apply(report_worker, ([case],))
        problems = [v["what"] for v in st.violations]
    elif case.get("via_parser"):
        computed, case2 = run_front_end(case)
        problems = check_case(case2, computed)
    else:
        cfg = C.configuration(case["country"], allow_negative_balances=True, long_term_days=case["lt"])
        out = C.run(case["specs"], ((1970, "fifo"),), cfg)
        problems = [f"{type(out.error).__name__}: {out.error}"] if out.error is not None else check_case(case, out.computed)
    if problems:
        print(f"VIOLATION property={PROP} replay={path}\n  {problems[0]}")
        return 1
    print(f"replay: {path}: property {PROP} holds on this case")
    return 0
