"""C09 - later transactions never change results already computed for earlier periods.

An edge property of the prefix tree of histories: for every node h and every cut between two distinct timestamps of h,
(1) everything the run of h reports for taxable events at or before the cut equals what the run of the truncated
history reports (pairing, amounts, proceeds, cost, gain, long/short, k/n of the event, closed years' lines), and
(2) when the cut also separates two calendar days, the run of h limited by `to_date = day of the cut` equals the run
of the truncated history on EVERYTHING a ComputedData exposes (rows shown, running sums, sold %, fraction counts,
yearly lines, balances, average price). No hand-written expected values: both sides come from the real code.
"""
from __future__ import annotations

import time
from typing import Any, Dict, List, Optional, Sequence, Tuple

from rp2verif import common
from rp2verif import history as H
from rp2verif.common import Stats
from rp2verif.lotrun import run_phases, sched_str, single_schedules, two_year_schedules
from rp2verif.lottree import History, Tree
from rp2verif.models.lots import parse_ts

PROP = "C09"
LEVEL = "model_checking"

# continuations the method in force would PREFER over the lots already there: every price rank at every step (HIFO /
# LOFO), newer lots (LIFO), an income lot, partial and spanning sales, a transfer fee
SYMBOLS = [H.B(1, 1), H.B(2, 1), H.B(3, 1), H.B(2, 2), H.E(3, 1), H.S(1), H.S(2), H.M(2, 1)]
FIRST = [s for s in SYMBOLS if s[0] in ("B", "E")]
EXTRA = None

# the wider C01 alphabet, used at smaller depth
WIDE = (
    [H.B(p, a) for p in (1, 2, 3) for a in (1, 2)]
    + [H.E(p, a) for p in (1, 3) for a in (1, 2)]
    + [H.S(a) for a in (1, 2, 3)]
    + [H.S(1, typ="GIFT"), H.S(1, fee=1), H.M(2, 1)]
)

TZ_DEVS = (540, -300, -480)
EDGE_KEYS = ("event", "lot", "type", "amount", "proceeds", "cost", "gain", "long", "event_k", "event_n", "lot_k", "running")


def edge_view(d: Dict[str, Any], cut_instant: float, closed_before_year: int) -> Dict[str, Any]:
    """What the property says a continuation may not touch: the fractions of events at or before the cut (without the
    lot's fraction count, which legitimately grows when later events consume more of the lot) and closed years."""
    rows = [{k: r[k] for k in EDGE_KEYS} for r in d["detail"] if r["event_ts"].timestamp() <= cut_instant]
    return {
        "detail": rows,
        "yearly": {k: v for k, v in d["yearly"].items() if k[0] < closed_before_year},
    }


def label_problems(rows: Sequence[Dict[str, Any]]) -> Optional[str]:
    """'k of n' labels recomputed from the fraction list itself: k counts the fractions of the same taxable event / of the same
    lot so far (in the list's order), n is their total number."""
    ev_total: Dict[Any, int] = {}
    lot_total: Dict[Any, int] = {}
    for r in rows:
        ev_total[r["event"]] = ev_total.get(r["event"], 0) + 1
        if r["lot"] is not None:
            lot_total[r["lot"]] = lot_total.get(r["lot"], 0) + 1
    ev_seen: Dict[Any, int] = {}
    lot_seen: Dict[Any, int] = {}
    for r in rows:
        ev_seen[r["event"]] = ev_seen.get(r["event"], 0) + 1
        if (r["event_k"], r["event_n"]) != (ev_seen[r["event"]], ev_total[r["event"]]):
            return f"fraction (event row {r['event']}, lot row {r['lot']}) is labelled {r['event_k']}/{r['event_n']} of its event; it is fraction {ev_seen[r['event']]} of {ev_total[r['event']]}"
        if r["lot"] is not None:
            lot_seen[r["lot"]] = lot_seen.get(r["lot"], 0) + 1
            if (r["lot_k"], r["lot_n"]) != (lot_seen[r["lot"]], lot_total[r["lot"]]):
                return f"fraction (event row {r['event']}, lot row {r['lot']}) is labelled {r['lot_k']}/{r['lot_n']} of its lot; it is fraction {lot_seen[r['lot']]} of {lot_total[r['lot']]}"
    return None


def long_tail_histories() -> List[History]:
    """Few lots, MANY small disposals, then a lot the method would prefer, then one more disposal: bookkeeping that only
    kicks in after many seeks (heap compaction, caches) must still not see the future. A bounded family, enumerated in full."""
    out: List[History] = []
    from rp2verif.lottree import balance_track

    for lots in (((H.B(2, 12), "="),), ((H.B(2, 6), "="), (H.B(1, 6), "d")), ((H.B(1, 4), "="), (H.B(3, 4), "d"), (H.B(2, 4), "d"))):
        for n in range(3, 15):
            sells = tuple((H.S(1) if i % 4 else H.S(1, typ="GIFT"), "d") for i in range(min(n, 9)))
            if n > 9:
                sells = sells + tuple((H.M(2, "1/4"), "d") for _ in range(n - 9))
            for late in (H.B(3, 2), H.B(1, 2)):
                hist = lots + sells + ((late, "y"), (H.S(1), "d"))
                assert not balance_track(hist)[0], hist
                out.append(hist)
    return out


def long_tail_worker(chunk: List[History]) -> Stats:
    st = Stats()
    runner = Runner()
    from rp2verif.lotrun import single_schedules, two_year_schedules

    for hist in chunk:
        specs = H.materialize(hist)
        if specs is None:
            continue
        for sch in single_schedules() + two_year_schedules()[:4]:
            judge_node(st, runner, hist, specs, sch, only_cut=len(hist) - 2)
    return st


def bundled_worker(chunk: List[Tuple[str, str]]) -> Stats:
    """Every cut of the inputs bundled with RP2 (input/*.ods), per asset, under the four methods and the input's own schedule."""
    from rp2verif import bundled
    from rp2verif.lotrun import single_schedules

    st = Stats()
    runner = Runner()
    data = bundled.load()
    for fname, asset in chunk:
        specs = data[fname][asset]
        own = bundled.schedule_of(fname)
        for sch in single_schedules() + ([tuple((int(y), m) for y, m in own)] if own else []):
            st.inc("bundled_nodes")
            judge_node(st, runner, (), specs, sch, name=f"bundled input {fname}.ods, asset {asset} ({len(specs)} transactions)")
    return st


def renumbered_histories() -> List[History]:
    """Two lots, two or three disposals at one instant (each taking a different lot or part), then a continuation. Judged with the sheet order
    reversed and the truncated history RE-WRITTEN as its own sheet: deleting the later rows renumbers every remaining row (here across 9 -> 10)."""
    from rp2verif.lottree import balance_track

    out: List[History] = []
    for lots in (((H.B(1, 1), "="), (H.B(2, 1), "d")), ((H.B(3, 1), "="), (H.B(1, 2), "d")), ((H.B(2, 2), "="), (H.E(3, 1), "d"))):
        for same in (((H.S(1), "d"), (H.S(1, typ="GIFT"), "=")), ((H.S(1), "d"), (H.M(2, 1), "=")), ((H.S(1, typ="GIFT"), "d"), (H.S(1), "="), (H.M(2, "1/2"), "="))):
            for cont in (((H.B(3, 1), "d"),), ((H.B(1, 1), "d"), (H.S(1), "d")), ((H.E(2, 1), "y"),)):
                hist = lots + same + cont
                if not balance_track(hist)[0]:
                    out.append(hist)
    return out


def judge_renumbered(st: Stats, hist: History, sch: Sequence[Tuple[int, str]]) -> None:
    """Edge form with the truncated history written as its own (reversed) sheet; transactions are identified by their position in time."""
    from rp2verif.seams import compute as C

    full_specs = H.materialize(hist, row_order="reverse")
    if full_specs is None:
        return
    st.inc("states")
    st.inc("renumbered_nodes")
    full = C.run_window(full_specs, sch)
    base = {"history": H.hist_str(hist), "hist": hist, "specs": full_specs, "schedule": list(sch), "renumbered": True}
    if not full.ok:
        st.violation(dict(base, signature=f"C09 valid history rejected / {type(full.error).__name__}", what=f"{sched_str(sch)}: {H.hist_str(hist)} [rows reversed] :: {full.error}"))
        return
    D, derr = C.try_dump(full.computed)
    if D is None:
        st.violation(dict(base, signature="C09 figures unreadable", what=f"{sched_str(sch)}: {H.hist_str(hist)} [rows reversed] :: {derr}"))
        return
    pos_full = {s["row"]: i for i, s in enumerate(full_specs)}  # materialize() lists the specs in chronological order

    def by_position(d: Dict[str, Any], pos: Dict[int, int], cut_instant: float, closed_before_year: int) -> Dict[str, Any]:
        v = edge_view(d, cut_instant, closed_before_year)
        v["detail"] = [dict(r, event=pos[r["event"]], lot=(pos[r["lot"]] if r["lot"] is not None else None)) for r in v["detail"]]
        return v

    ts = [parse_ts(s["timestamp"]) for s in full_specs]
    for k in range(1, len(hist)):
        if not ts[k - 1] < ts[k] or not any(s["table"] == "in" for s in full_specs[:k]):
            continue
        trunc_specs = H.materialize(hist[:k], row_order="reverse")
        assert trunc_specs is not None
        st.inc("transitions")
        st.inc("traces_validated_against_impl")
        t = C.run_window(trunc_specs, sch)
        tag = f"{sched_str(sch)}: {H.hist_str(hist)} [rows reversed] cut after item {k}, truncated history written as its own sheet"
        if not t.ok:
            st.violation(dict(base, cut=k, signature=f"C09 truncated history rejected / {type(t.error).__name__}", what=f"{tag} :: {t.error}"))
            continue
        P, perr = C.try_dump(t.computed)
        if P is None:
            st.violation(dict(base, cut=k, signature="C09 figures unreadable", what=f"{tag} :: {perr}"))
            continue
        pos_trunc = {s["row"]: i for i, s in enumerate(trunc_specs)}
        problem = C.diff_dumps(by_position(D, pos_full, ts[k - 1].timestamp(), ts[k].year), by_position(P, pos_trunc, ts[k - 1].timestamp(), ts[k].year))
        if problem:
            st.violation(dict(base, cut=k, signature=f"C09 continuation changed earlier results / renumbered / {problem.split(':')[0].split('[')[0]}",
                              what=f"{tag} :: full history vs truncated history (transactions numbered by time) :: {problem}"))


def renumbered_worker(chunk: List[History]) -> Stats:
    from rp2verif.lotrun import single_schedules

    st = Stats()
    for hist in chunk:
        for sch in single_schedules():
            judge_renumbered(st, hist, sch)
    return st


class Runner:
    """Runs of prefixes are shared along a depth-first walk (a prefix is the truncation of all its extensions)."""

    def __init__(self) -> None:
        self.cache: Dict[Any, Any] = {}

    def truncated(self, C: Any, specs: Sequence[Dict[str, Any]], k: int, sch: Any) -> Any:
        key = (tuple(s["row"] for s in specs[:k]), tuple(s["timestamp"] for s in specs[:k]), tuple(s["sym"] for s in specs[:k]), tuple(sch))
        hit = self.cache.get(key)
        if hit is None:
            if len(self.cache) > 256:
                self.cache.clear()
            out = C.run_window(specs[:k], sch)
            dmp = None
            if out.ok:
                dmp, derr = C.try_dump(out.computed)
                if dmp is None:
                    out = C.Outcome(None, RuntimeError(derr), None)
            hit = (out, dmp)
            self.cache[key] = hit
        return hit


def judge_node(st: Stats, runner: Runner, hist: History, specs: List[Dict[str, Any]], sch: Sequence[Tuple[int, str]], only_cut: Optional[int] = None,
               edge_only: bool = False, name: Optional[str] = None) -> None:
    from rp2verif.seams import compute as C

    st.inc("states")
    st.inc(f"states_depth_{len(hist)}")
    hs = name or H.hist_str(hist)
    base = {"history": hs, "hist": hist, "specs": specs, "schedule": list(sch)}
    full = C.run_window(specs, sch)
    if not full.ok:
        st.violation(dict(base, signature=f"C09 valid history rejected / {type(full.error).__name__}",
                          what=f"{sched_str(sch)}: {hs} :: {type(full.error).__name__}: {full.error}"))
        return
    D, derr = C.try_dump(full.computed)
    if D is None:
        st.violation(dict(base, signature="C09 figures unreadable", what=f"{sched_str(sch)}: {hs} :: {derr}"))
        return
    lp = label_problems(D["detail"])
    if lp:
        st.violation(dict(base, signature="C09 fraction labels", what=f"{sched_str(sch)}: {hs} :: {lp}"))
    ts = [parse_ts(s["timestamp"]) for s in specs]
    order = sorted(range(len(specs)), key=lambda i: ts[i])
    chron = [specs[i] for i in order]
    cts = [ts[i] for i in order]
    for k in range(1, len(chron)):
        if only_cut is not None and k != only_cut:
            continue
        if not cts[k - 1] < cts[k]:
            continue  # not a cut between two distinct timestamps
        if not any(s["table"] == "in" for s in chron[:k]):
            continue
        st.inc("transitions")
        tout, P = runner.truncated(C, chron, k, sch)
        tag = f"{sched_str(sch)}: {hs} cut after item {k}"
        if not tout.ok:
            st.violation(dict(base, cut=k, signature=f"C09 truncated history rejected / {type(tout.error).__name__}",
                              what=f"{tag} :: truncated history rejected: {tout.error}"))
            continue
        later_lot = any(s["table"] == "in" for s in chron[k:])
        earlier_disposal = any(r["lot"] is not None for r in P["detail"])
        if later_lot and earlier_disposal:
            st.inc("distinct_nontrivial")
        # (1) edge form: results for events <= T
        st.inc("traces_validated_against_impl")
        a = edge_view(D, cts[k - 1].timestamp(), cts[k].year)
        b = edge_view(P, cts[k - 1].timestamp(), cts[k].year)
        problem = C.diff_dumps(a, b)
        if problem:
            st.violation(dict(base, cut=k, signature=f"C09 continuation changed earlier results / {problem.split(':')[0].split('[')[0]}",
                              what=f"{tag} :: full history vs history truncated at the cut :: {problem}"))
        # (2) to-date form: run limited to the day of the cut == run on the truncated history
        if not edge_only and cts[k - 1].date() < cts[k].date():
            st.inc("traces_validated_against_impl")
            st.inc("to_date_comparisons")
            w = C.run_window(specs, sch, None, cts[k - 1].date())
            if not w.ok:
                st.violation(dict(base, cut=k, signature=f"C09 to-date run rejected / {type(w.error).__name__}",
                                  what=f"{tag} :: -t {cts[k - 1].date()} rejected: {w.error}"))
                continue
            W, werr = C.try_dump(w.computed)
            if W is None:
                st.violation(dict(base, cut=k, signature="C09 figures unreadable / to-date run", what=f"{tag} :: -t {cts[k - 1].date()}: {werr}"))
                continue
            problem = C.diff_dumps(W, P)
            if problem:
                st.violation(dict(base, cut=k, signature=f"C09 to-date run differs from truncated history / {problem.split(':')[0].split('[')[0]}",
                                  what=f"{tag} :: -t {cts[k - 1].date()} vs history truncated there :: {problem}"))
            elif later_lot and earlier_disposal:
                st.sample({"history": H.hist_str(hist), "schedule": sched_str(sch), "cut_after_item": k, "to_date": str(cts[k - 1].date()),
                           "fractions <= cut": [(r["event"], r["lot"], str(r["amount"])) for r in P["detail"]]}, cap=1)


# A second asset of the same run whose whole history lies in 2019, before anything the tree puts into asset B1 (2020 onwards): whatever is
# added to B1 is "dated after T = 2019-12-31" for this asset. Its rows carry the same spreadsheet row numbers as B1's (every sheet starts
# at the same row), and RP2 computes all assets of a run with ONE engine and one set of method objects.
OTHER_ASSET: List[History] = [
    ((H.B(2, 1), "="), (H.B(1, 1), "d"), (H.B(3, 1), "d"), (H.S(1), "d"), (H.S(1), "d")),
    ((H.B(3, 1), "="), (H.B(1, 2), "d"), (H.S(2), "d"), (H.B(2, 1), "d"), (H.S(1), "d")),
]
_OTHER_REF: Dict[Any, Any] = {}


def judge_other_asset(st: Stats, hist: History, specs: List[Dict[str, Any]], sch: Sequence[Tuple[int, str]]) -> None:
    from datetime import datetime, timezone

    from rp2verif.seams import compute as C

    cfg = C.configuration("us", allow_negative_balances=True)
    for gi, g in enumerate(OTHER_ASSET):
        for g_order in ("chrono", "reverse"):
            st.inc("states")
            st.inc("two_asset_runs")
            gspecs = H.materialize(g, row_order=g_order, base=datetime(2019, 3, 1, 12, 0, 0, tzinfo=timezone.utc))
            assert gspecs is not None
            key = (gi, g_order, tuple(sch))
            ref = _OTHER_REF.get(key)
            if ref is None:
                # the run truncated at T = 2019-12-31: B1 has no transaction yet, only this asset is computed
                ref = C.dump(C.compute_tax(cfg, C.engine(sch), C.build_input(cfg, gspecs, "B2")))
                _OTHER_REF[key] = ref
            base = {"history": H.hist_str(hist), "hist": hist, "specs": specs, "schedule": list(sch), "other_asset": {"index": gi, "row_order": g_order, "specs": gspecs}}
            tag = f"{sched_str(sch)}: B1 = {H.hist_str(hist)} || B2 (all of it in 2019, rows {g_order}) = {H.hist_str(g)}"
            try:
                eng = C.engine(sch)
                C.compute_tax(cfg, eng, C.build_input(cfg, specs, "B1"))
                got, err = C.try_dump(C.compute_tax(cfg, eng, C.build_input(cfg, gspecs, "B2")))
            except Exception as exc:  # pylint: disable=broad-except
                got, err = None, f"{type(exc).__name__}: {exc}"
            st.inc("traces_validated_against_impl")
            st.inc("transitions")
            if got is None:
                st.violation(dict(base, signature="C09 two assets: run failed", what=f"{tag} :: {err}"))
                continue
            problem = C.diff_dumps(got, ref)
            if problem:
                st.violation(dict(base, signature=f"C09 two assets: B1 transactions of 2020+ changed B2 figures of 2019 / {problem.split(':')[0].split('[')[0]}",
                                  what=f"{tag} :: B2 in this run vs B2 in the run truncated at 2019-12-31 :: {problem}"))


def worker(task: Tuple[Any, ...]) -> Stats:
    root, depth, schedules, steps, dev, row_order = task[:6]
    symbols = WIDE if dev == "wide" else SYMBOLS
    first = [s for s in symbols if s[0] in ("B", "E")]
    tree = Tree(first, symbols, steps, EXTRA)
    st = Stats()
    runner = Runner()
    for hist in tree.level(root, depth):
        specs = H.materialize(hist, row_order=row_order)
        if specs is None:
            continue
        if dev == "tz":
            # one transaction carries another UTC offset, steps are hours: wall-clock order contradicts instant order.
            # Only the edge form applies (a to-date is a local calendar date).
            for i in range(len(hist)):
                for tz in TZ_DEVS:
                    h2 = tuple((it[0], it[1], tz if j == i else 0) for j, it in enumerate(hist))
                    s2 = H.materialize(h2, row_order=row_order)
                    if s2 is None:
                        continue
                    for sch in schedules:
                        judge_node(st, runner, h2, s2, sch, edge_only=True)
            continue
        for sch in schedules:
            if dev == "other":
                judge_other_asset(st, hist, specs, sch)
            else:
                judge_node(st, runner, hist, specs, sch)
                if row_order == "reverse":
                    judge_renumbered(st, hist, sch)
    return st


def plan(tier: str) -> List[Dict[str, Any]]:
    singles = single_schedules()
    two = two_year_schedules()
    if tier == "quick":
        return [
            {"name": "preferred continuations, single methods", "schedules": singles, "steps": ("=", "d", "y"), "depth": 4, "dev": 0, "group": 1},
            {"name": "two-year schedules", "schedules": two, "steps": ("=", "d", "y"), "depth": 3, "dev": 0, "group": 3},
            {"name": "intraday cuts", "schedules": singles, "steps": ("=", "h", "d"), "depth": 3, "dev": 0, "group": 2},
            {"name": "wide alphabet", "schedules": singles, "steps": ("=", "d"), "depth": 3, "dev": "wide", "group": 1, "symbols": "wide"},
            {"name": "sheet order reversed", "schedules": singles, "steps": ("=", "d", "y"), "depth": 3, "dev": 0, "group": 2, "row_order": "reverse"},
            {"name": "one transaction in another UTC offset (edge form)", "schedules": singles, "steps": ("=", "h"), "depth": 3, "dev": "tz", "group": 2},
            {"name": "two assets in one run: B1 grows in 2020+, B2 lies wholly in 2019", "schedules": singles, "steps": ("=", "d"), "depth": 3, "dev": "other", "group": 2},
        ]
    return [
        {"name": "preferred continuations, single methods", "schedules": singles, "steps": ("=", "d", "y"), "depth": 4, "dev": 0, "group": 1},
        {"name": "two-year schedules", "schedules": two, "steps": ("=", "d", "y"), "depth": 4, "dev": 0, "group": 2},
        {"name": "intraday cuts", "schedules": singles, "steps": ("=", "h", "d"), "depth": 4, "dev": 0, "group": 1},
        {"name": "wide alphabet", "schedules": singles, "steps": ("=", "d"), "depth": 4, "dev": "wide", "group": 1, "symbols": "wide"},
        {"name": "sheet order reversed", "schedules": singles, "steps": ("=", "d", "y"), "depth": 4, "dev": 0, "group": 2, "row_order": "reverse"},
        {"name": "one transaction in another UTC offset (edge form)", "schedules": singles, "steps": ("=", "h"), "depth": 4, "dev": "tz", "group": 1},
        {"name": "two assets in one run: B1 grows in 2020+, B2 lies wholly in 2019", "schedules": singles + two, "steps": ("=", "d", "y"), "depth": 4, "dev": "other", "group": 1},
        {"name": "preferred continuations, depth 5", "schedules": singles, "steps": ("=", "d", "y"), "depth": 5, "dev": 0, "group": 1, "from_depth": 5},
    ]


def main(tier: str, budget_s: Optional[float] = None) -> int:
    t0 = time.time()
    deadline = t0 + (budget_s or (240 if tier == "quick" else 3300))
    total = Stats()
    info: List[Dict[str, Any]] = []
    complete = True
    # the shallower (cheaper) phases first, the deepest trees last: a budget that runs out cuts into depth, not into whole dimensions
    for ph in sorted(plan(tier), key=lambda x: x["depth"]):
        symbols = WIDE if ph.get("symbols") == "wide" else SYMBOLS
        first = [s for s in symbols if s[0] in ("B", "E")]
        t, i, c = run_phases([ph], worker, first, symbols, EXTRA, deadline)
        total.merge(t)
        info += i
        complete = complete and c
    from rp2verif import bundled as _B

    bt = _B.sheets()
    tb = time.time()
    bres, bdone = common.pmap(bundled_worker, [[x] for x in bt], deadline=max(deadline, time.time() + 90))
    for r in bres:
        if r is not None:
            total.merge(r)
    complete = complete and bdone == len(bt)
    info.append({"phase": "inputs bundled with RP2: every cut of every asset sheet of the 9 files x 4 methods (+ the file's own schedule)", "asset_sheets": len(bt),
                 "executions": total.get("bundled_nodes"), "wall_s": round(time.time() - tb, 1)})
    rn = renumbered_histories()
    tr = time.time()
    rres, rdone = common.pmap(renumbered_worker, [[h] for h in rn], deadline=max(deadline, time.time() + 60))
    for r in rres:
        if r is not None:
            total.merge(r)
    complete = complete and rdone == len(rn)
    info.append({"phase": "same-instant disposals over two lots + a continuation, reversed sheet, truncated history written as its own sheet (rows renumbered across 9 -> 10)",
                 "histories": len(rn), "executions": total.get("renumbered_nodes"), "wall_s": round(time.time() - tr, 1)})
    lt = long_tail_histories()
    nlt = max(1, min(len(lt), common.NPROC * 2))
    lres, ldone = common.pmap(long_tail_worker, [lt[i::nlt] for i in range(nlt)], deadline=deadline)
    for r in lres:
        if r is not None:
            total.merge(r)
    complete = complete and ldone == nlt
    info.append({"phase": "long tail: 1-3 lots, 3..14 small disposals, a preferred late lot, one more disposal (cut before the late lot)", "histories": len(lt), "schedules": 8,
                 "chunks_done": ldone, "chunks": nlt})
    new, matched = common.report(PROP, total.violations)
    coverage = {
        "states": total.get("states"),
        "transitions": total.get("transitions"),
        "traces_validated_against_impl": total.get("traces_validated_against_impl"),
        "evaluations": total.get("traces_validated_against_impl"),
        "distinct_nontrivial": total.get("distinct_nontrivial"),
        "to_date_comparisons": total.get("to_date_comparisons"),
        "rule": (
            "states = (history, schedule) nodes of the prefix tree of valid histories, each run from scratch; transitions = (node, cut) pairs "
            "with the cut between two distinct timestamps; per transition the run of the whole history is compared with the run of the history "
            "truncated at the cut (events <= cut: pairing, amounts, proceeds, cost, gain, long/short, k/n, closed years) and, when the cut "
            "separates two calendar days, the run limited by to_date with the truncated run on the complete canonical dump. non-trivial = "
            "a lot is acquired after the cut while some disposal at or before the cut consumed a lot (a peeking matcher would be tempted); on every node "
            "the 'k of n' labels of all fractions are also recomputed from the fraction list; "
            "(node, cut) pairs are distinct by construction"
        ),
        "alphabet": [H.sym_str(s) for s in SYMBOLS],
        "wide_alphabet": [H.sym_str(s) for s in WIDE],
        "phases": info,
        "per_depth": {k: v for k, v in sorted(total.counters.items()) if k.startswith("states_depth_")},
        "exhaustive": bool(complete),
        "violations_total": total.get("violations_total"),
        "known_finding_hits": matched,
        "samples": total.samples[:6],
    }
    common.write_evidence(PROP, tier, LEVEL, coverage, time.time() - t0, new, assumptions=[
        "the to-date form runs in a single time zone (the to-date cut is by local calendar date while sets are ordered by instant); mixed UTC offsets are explored in the edge form only",
        "the lot's own fraction count (k of N) may grow with later disposals and is excluded from the edge form; it is included in the to-date form",
    ])
    print(f"{PROP} {tier}: states={total.get('states')} cuts={total.get('transitions')} comparisons={total.get('traces_validated_against_impl')} "
          f"nontrivial={total.get('distinct_nontrivial')} violations={total.get('violations_total')} (unlisted {new}) exhaustive={complete} wall={time.time() - t0:.1f}s")
    for i in info:
        print("  ", i)
    return 1 if new else 0


def replay(path: str) -> int:
    import json

    from rp2verif.lotrun import _to_tuple

    with open(path, encoding="utf-8") as f:
        p = json.load(f)
    st = Stats()
    hist = _to_tuple(p["hist"])
    if p.get("renumbered"):
        judge_renumbered(st, hist, [tuple(x) for x in p["schedule"]])
    elif p.get("other_asset"):
        judge_other_asset(st, hist, p["specs"], [tuple(x) for x in p["schedule"]])
    else:
        judge_node(st, Runner(), hist, p["specs"], [tuple(x) for x in p["schedule"]], p.get("cut"), edge_only=any(len(it) > 2 and it[2] for it in hist))
    if st.violations:
        print(f"VIOLATION property={PROP} replay={path}\n  {st.violations[0]['what']}")
        return 1
    print(f"replay: {path}: property {PROP} holds on this case")
    return 0
