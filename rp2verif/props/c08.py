"""C08 - histories that overdraw an account are rejected unless -n is given.

The C07 tree including account-overdrawing and transiently overdrawing histories, intraday steps, epsilon
deviations around the tolerance, -n off/on; the oracle is a reference replay with an explicit 'either' zone for what
the property leaves open (order inside an instant, dips between -1e-10 and 0).
"""
from __future__ import annotations

import time
from fractions import Fraction
from typing import Any, Dict, List, Optional, Sequence, Tuple

from rp2verif import common
from rp2verif import history as H
from rp2verif.common import Stats
from rp2verif.lotrun import run_phases, sched_str
from rp2verif.lottree import History, Tree, balance_track
from rp2verif.models import accounts as MA
from rp2verif.models.lots import F
from rp2verif.props.c07 import FIRST, SYMBOLS

PROP = "C08"
LEVEL = "model_checking"
EXTRA = 0  # histories that over-spend the asset as a whole are judged (must be rejected) but not extended
STEPS = ("=", "h", "d")
EPS = ("4/100000000000", "1/10000000000", "11/100000000000", "1/1000000000")


def eps_variants(hist: History) -> List[Tuple[History, str]]:
    """amount + eps at one outgoing position (sale or transfer)."""
    out = []
    for i, item in enumerate(hist):
        sym = item[0]
        if sym[0] not in ("S", "M"):
            continue
        for e in EPS:
            items = list(hist)
            amt = str(Fraction(sym[2]) + Fraction(e))
            if sym[0] == "S":
                new = ("S", sym[1], amt, sym[3], sym[4], sym[5])
            else:
                new = ("M", sym[1], amt, sym[3], sym[4], sym[5])
            items[i] = (new,) + tuple(item[1:])
            out.append((tuple(items), f"eps:{e}@{i}"))
    return out


def eps_all_variants(hist: History) -> List[Tuple[History, str]]:
    """The same epsilon added to EVERY outgoing amount: debits that are each within the tolerance but accumulate beyond it."""
    out = []
    n_out = sum(1 for it in hist if it[0][0] in ("S", "M"))
    if n_out < 2:
        return out
    for e in EPS[:2] + ("3/100000000000",):
        items = []
        for item in hist:
            sym = item[0]
            if sym[0] in ("S", "M"):
                sym = (sym[0], sym[1], str(Fraction(sym[2]) + Fraction(e)), sym[3], sym[4], sym[5])
            items.append((sym,) + tuple(item[1:]))
        out.append((tuple(items), f"eps-all:{e}"))
    return out


def dust_tail_variants(hist: History) -> List[Tuple[History, str]]:
    """k = 1..4 further disposals of 4e-11 each, one day apart, from each account: every single one is within the tolerance,
    three of them from an empty account are not."""
    out = []
    for acct in (0, 1, 2):
        for k in (1, 2, 3, 4):
            tail = tuple((H.S("4/100000000000", acct=acct), "d") for _ in range(k))
            out.append((tuple(hist) + tail, f"dust-tail:{k}x4e-11@{acct}"))
    return out


def judge_one(st: Stats, hist: History, specs: List[Dict[str, Any]], sch: Sequence[Tuple[int, str]], label: str) -> None:
    from rp2verif.seams import compute as C

    verdict, acct, dip = MA.overdraft_verdict(specs)
    globally_over = balance_track(hist)[0]
    for neg in (False, True):
        st.inc("states")
        st.inc(f"states_depth_{len(hist)}")
        if len(hist) > 1:
            st.inc("transitions")
        out = C.run_window(specs, sch, allow_negative_balances=neg)
        base = {"history": H.hist_str(hist), "hist": hist, "specs": specs, "schedule": list(sch), "allow_negative": neg, "deviation": label,
                "model_verdict": verdict, "deepest_dip": str(dip)}
        tag = f"{sched_str(sch)}{' -n' if neg else ''}: {H.hist_str(hist)}{' [' + label + ']' if label else ''}"
        if not out.ok and not isinstance(out.error, C.RP2Error):
            st.violation(dict(base, signature=f"C08 internal error / {type(out.error).__name__}", what=f"{tag} :: {type(out.error).__name__}: {out.error}"))
            continue
        st.inc("traces_validated_against_impl")
        if globally_over:
            # the lot matcher refuses first (C02); rejection is required with and without -n
            if out.ok:
                st.violation(dict(base, signature="C08 over-spent asset accepted", what=f"{tag} :: asset over-spent as a whole but figures were produced"))
            else:
                st.inc("rejected_by_lot_matcher")
            continue
        if neg:
            if not out.ok:
                st.violation(dict(base, signature=f"C08 rejected despite -n / {type(out.error).__name__}", what=f"{tag} :: {out.error}"))
                continue
            want = MA.balances(specs)
            got = {(b.exchange, b.holder): F(b.final_balance) for b in out.computed.balance_set}
            bad = [k for k in want if got.get(k) != want[k]["final"]]
            if bad:
                st.violation(dict(base, signature="C08 -n: wrong final balance reported",
                                  what=f"{tag} :: account {bad[0]} final balance {got.get(bad[0])} != {want[bad[0]]['final']}"))
            elif any(v["final"] < 0 for v in want.values()):
                st.inc("negative_balance_reported_with_n")
            continue
        # without -n
        if verdict == "must_reject":
            st.inc("distinct_nontrivial")
            if out.ok:
                st.violation(dict(base, signature="C08 overdraft accepted",
                                  what=f"{tag} :: account {acct} goes down to {dip} under every ordering, yet the history was accepted without -n"))
            else:
                msg = str(out.error)
                st.inc("must_reject_ok")
                if acct is not None and not (f'"{acct[0]}"' in msg and f'"{acct[1]}"' in msg):
                    # the message must name exchange and holder of an overdrawn account (any overdrawn one is fine)
                    names_some = any(f'"{a[0]}"' in msg and f'"{a[1]}"' in msg for a in MA.balances(specs))
                    if not names_some:
                        st.violation(dict(base, signature="C08 error does not name the account", what=f"{tag} :: {msg[:200]}"))
                st.sample({"history": H.hist_str(hist), "deviation": label, "verdict": verdict, "dip": str(dip), "error": msg[:120]}, cap=1)
        elif verdict == "must_accept":
            if not out.ok:
                st.violation(dict(base, signature=f"C08 history without overdraft rejected / {type(out.error).__name__}",
                                  what=f"{tag} :: no account ever goes negative, yet: {str(out.error)[:200]}"))
            else:
                st.inc("must_accept_ok")
        else:
            st.inc("either_zone")
            st.inc("distinct_nontrivial")
        # a from-date only hides rows: the overdraft verdict of the whole history must not depend on it
        if not label and verdict in ("must_reject", "must_accept") and len(hist) >= 2:
            from rp2verif.models.lots import parse_ts

            last = max(parse_ts(s2["timestamp"]).date() for s2 in specs)
            from datetime import timedelta

            for fd in (last, last + timedelta(days=1)):
                st.inc("from_date_runs")
                f_out = C.run_window(specs, sch, from_date=fd, allow_negative_balances=False)
                if f_out.ok != out.ok:
                    st.violation(dict(base, from_date=str(fd), signature="C08 verdict depends on the from-date",
                                      what=f"{tag} -f {fd} :: {'accepted' if f_out.ok else 'rejected'} with the from-date, {'accepted' if out.ok else 'rejected'} without"))


def worker(task: Tuple[Any, ...]) -> Stats:
    root, depth, schedules, steps, dev, row_order = task[:6]
    tree = Tree(FIRST, SYMBOLS, steps, EXTRA)
    st = Stats()
    for hist in tree.level(root, depth):
        variants: List[Tuple[History, str]] = [(hist, "")] if not dev else (eps_all_variants(hist) if dev == "all" else dust_tail_variants(hist) if dev == "dust" else eps_variants(hist))
        for h2, label in variants:
            specs = H.materialize(h2, row_order=row_order)
            if specs is None:
                continue
            for sch in schedules:
                judge_one(st, h2, specs, sch, label)
    return st


# ------------------------------------------------------------------------------------------------------------------
# end-to-end slice: every history of depth <= 2 (thorough: a third of depth 3) through the REAL command line


def cli_histories(tier: str) -> List[History]:
    tree = Tree(FIRST, SYMBOLS, ("=", "h", "d"), EXTRA)
    out: List[History] = []
    for depth in (1, 2, 3) if tier == "thorough" else (1, 2):
        for root in tree.roots(depth):
            for k, hist in enumerate(tree.level(root, depth)):
                if depth < 3 or k % 3 == 0:
                    out.append(hist)
    # acquisitions that pay their fee in crypto (the parser turns the fee into a fee-only disposal at the same instant), as the first
    # funds of an account and next to same-instant disposals
    for a in (0, 1):
        for fee in ("1/4", "1"):
            first = (H.B(1, 2, acct=a, fee=fee), "=")
            out.append((first,))
            for sym in (H.S(1, acct=a), H.S(2, acct=a), H.M(1, 0, src=a, dst=2), H.M(2, 1, src=a, dst=2), H.B(1, 1, acct=a, fee="1/2")):
                for step in ("=", "d"):
                    out.append((first, (sym, step)))
    # transactions within one second (250 ms apart): an overdraft at .250 that a crypto-fee purchase at .500 would refill is an overdraft all the
    # same, and a purchase at .000 covers a sale at .250
    for a in (0, 1):
        out.append(((H.B(1, 1, acct=a), "="), (H.S(2, acct=a), "ms"), (H.B(1, 2, acct=a, fee="1/4"), "ms")))
        out.append(((H.B(1, 2, acct=a, fee="1/4"), "="), (H.S(1, acct=a), "ms"), (H.S(1, acct=a), "ms")))
        out.append(((H.B(1, 1, acct=a), "="), (H.M(2, 0, src=a, dst=2), "ms"), (H.B(1, 2, acct=a, fee="1/2"), "ms"), (H.S(1, acct=2), "d")))
    return out


def cli_worker(chunk: List[History]) -> Stats:
    import os

    from rp2verif import frdriver as D
    from rp2verif import sheets as S
    from rp2verif.seams import cli

    st = Stats()
    for n, hist in enumerate(chunk):
        specs = H.materialize(hist, uid=True)
        if specs is None:
            continue
        verdict, acct, dip = MA.overdraft_verdict(specs)
        globally_over = balance_track(hist)[0]
        matrix, _ = D.to_sheet(specs, "B1")
        ws = cli.Workspace(f"c08-{os.getpid()}-{n}")
        try:
            ini = ws.write("config.ini", S.ini_text(S.canonical_layout(), assets=("B1",)))
            ods = cli.write_ods(os.path.join(ws.inp, "input.ods"), {"B1": matrix})
            for neg in (False, True):
                st.inc("cli_runs")
                ws.clean_out()
                res = cli.run_forked("us", ["-o", ws.out] + (["-n"] if neg else []) + [ini, ods], ws.cwd, ws.out)
                reports = [f for f in res.outputs if f.endswith(".ods")]
                text = res.stderr + res.stdout
                tag = f"rp2_us{' -n' if neg else ''}: {H.hist_str(hist)}"
                base = {"history": H.hist_str(hist), "hist": hist, "specs": specs, "schedule": [(1970, "fifo")], "allow_negative": neg, "deviation": "cli"}
                must_fail = globally_over or (verdict == "must_reject" and not neg)
                must_pass = not globally_over and (neg or verdict == "must_accept")
                if must_fail:
                    st.inc("cli_must_fail")
                    if res.exit == 0 or reports:
                        st.violation(dict(base, signature="C08 cli: overdrawing history produced a report", what=f"{tag} :: exit {res.exit}, reports {reports}"))
                    elif not globally_over and acct is not None and not any(f'"{a[0]}"' in text and f'"{a[1]}"' in text for a in MA.balances(specs)):
                        st.violation(dict(base, signature="C08 cli: error does not name the account", what=f"{tag} :: {text.strip().splitlines()[-1][:200] if text.strip() else ''}"))
                elif must_pass:
                    st.inc("cli_must_pass")
                    if res.exit != 0 or len(reports) != 3:
                        st.violation(dict(base, signature="C08 cli: history without overdraft failed", what=f"{tag} :: exit {res.exit}, reports {reports}: {text.strip().splitlines()[-1][:200] if text.strip() else ''}"))
                else:
                    st.inc("cli_either")
        finally:
            ws.remove()
    return st


def cli_init() -> None:
    from rp2verif.seams import cli

    cli.preload()


def plan(tier: str) -> List[Dict[str, Any]]:
    fifo = [((1970, "fifo"),)]
    if tier == "quick":
        return [
            {"name": "3 accounts, steps = / +1h / +1d", "schedules": fifo, "steps": STEPS, "depth": 3, "dev": 0, "group": 1},
            {"name": "amount + epsilon", "schedules": fifo, "steps": ("=", "d"), "depth": 3, "dev": 1, "group": 1, "from_depth": 2},
            {"name": "the same epsilon on every outgoing amount (accumulating dust)", "schedules": fifo, "steps": ("=", "d"), "depth": 3, "dev": "all", "group": 1, "from_depth": 3},
            {"name": "1..4 dust disposals of 4e-11 appended to every history of depth <= 2", "schedules": fifo, "steps": ("=", "d"), "depth": 2, "dev": "dust", "group": 1},
            {"name": "sheet order reversed", "schedules": fifo, "steps": ("=", "d"), "depth": 3, "dev": 0, "group": 1, "row_order": "reverse"},
        ]
    return [
        {"name": "3 accounts, steps = / +1h / +1d", "schedules": fifo + [((1970, "hifo"),)], "steps": STEPS, "depth": 3, "dev": 0, "group": 1},
        {"name": "3 accounts, depth 4", "schedules": fifo, "steps": ("=", "h"), "depth": 4, "dev": 0, "group": 1, "from_depth": 4},
        {"name": "amount + epsilon", "schedules": fifo, "steps": ("=", "d"), "depth": 3, "dev": 1, "group": 1, "from_depth": 2},
        {"name": "sheet order reversed", "schedules": fifo, "steps": STEPS, "depth": 3, "dev": 0, "group": 1, "row_order": "reverse"},
        {"name": "the same epsilon on every outgoing amount (accumulating dust)", "schedules": fifo, "steps": ("=", "d"), "depth": 4, "dev": "all", "group": 1, "from_depth": 3},
        {"name": "1..4 dust disposals of 4e-11 appended to every history of depth <= 3", "schedules": fifo, "steps": ("=", "d"), "depth": 3, "dev": "dust", "group": 1},
    ]


def main(tier: str, budget_s: Optional[float] = None) -> int:
    t0 = time.time()
    deadline = t0 + (budget_s or (240 if tier == "quick" else 3000))
    # the end-to-end slice first: the forking workers must be rp2-free, and so is this process
    hs = cli_histories(tier)
    nchunks = max(1, min(len(hs), common.NPROC * 4))
    cli_results, cli_done = common.pmap(cli_worker, [hs[i::nchunks] for i in range(nchunks)], deadline=deadline, init=cli_init)
    cli_total = Stats()
    for r in cli_results:
        if r is not None:
            cli_total.merge(r)
    total, info, complete = run_phases(plan(tier), worker, FIRST, SYMBOLS, EXTRA, deadline, by_depth=True)
    total.merge(cli_total)
    complete = complete and cli_done == nchunks
    info.append({"phase": "end-to-end: every history of depth <= 2 through the real command line, without and with -n", "histories": len(hs),
                 "cli_runs": cli_total.get("cli_runs"), "must_fail": cli_total.get("cli_must_fail"), "must_pass": cli_total.get("cli_must_pass"), "either": cli_total.get("cli_either")})
    new, matched = common.report(PROP, total.violations)
    coverage = {
        "states": total.get("states"),
        "transitions": total.get("transitions"),
        "traces_validated_against_impl": total.get("traces_validated_against_impl"),
        "evaluations": total.get("states"),
        "distinct_nontrivial": total.get("distinct_nontrivial"),
        "rule": (
            "every node of the 3-account prefix tree (30 symbols, steps same instant / +1 hour / +1 day; account-overdrawing, transiently "
            "overdrawing and globally over-spent histories included) x -n off/on, plus amount+epsilon at every outgoing position; accept/reject "
            "compared with the reference replay; distinct by construction; non-trivial = some ordering overdraws an account"
        ),
        "outcomes": {k: total.get(k) for k in ("must_reject_ok", "must_accept_ok", "either_zone", "rejected_by_lot_matcher", "negative_balance_reported_with_n")},
        "epsilons": list(EPS),
        "alphabet": [H.sym_str(s) for s in SYMBOLS],
        "phases": info,
        "per_depth": {k: v for k, v in sorted(total.counters.items()) if k.startswith("states_depth_")},
        "exhaustive": bool(complete),
        "violations_total": total.get("violations_total"),
        "known_finding_hits": matched,
        "samples": total.samples[:6],
    }
    common.write_evidence(PROP, tier, LEVEL, coverage, time.time() - t0, new, assumptions=[
        "inside a group of equal instants the property fixes no order: only outcomes common to all orders are demanded",
        "dips between -1e-10 and 0 may go either way (the code's effective tolerance is 5e-11)",
        "'no report is produced' is decided end to end for every history of depth <= 2 (real CLI: exit status, message naming the account, empty output directory)",
    ])
    print(f"{PROP} {tier}: states={total.get('states')} must_reject_ok={total.get('must_reject_ok')} must_accept_ok={total.get('must_accept_ok')} "
          f"either={total.get('either_zone')} violations={total.get('violations_total')} (unlisted {new}) exhaustive={complete} wall={time.time() - t0:.1f}s")
    for i in info:
        print("  ", i)
    return 1 if new else 0


def replay(path: str) -> int:
    import json

    from rp2verif.lotrun import _to_tuple

    with open(path, encoding="utf-8") as f:
        p = json.load(f)
    st = Stats()
    if p.get("deviation") == "cli":
        import multiprocessing as mp

        with mp.get_context("fork").Pool(1, initializer=cli_init) as pool:
            st = pool.apply(cli_worker, ([_to_tuple(p["hist"])],))
    else:
        judge_one(st, _to_tuple(p["hist"]), p["specs"], [tuple(x) for x in p["schedule"]], p.get("deviation", ""))
    if st.violations:
        print(f"VIOLATION property={PROP} replay={path}\n  {st.violations[0]['what']}")
        return 1
    print(f"replay: {path}: property {PROP} holds on this case")
    return 0
