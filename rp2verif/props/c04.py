"""C04 - proceeds, cost basis and gain of every fraction are arithmetically exact.

Full product of amount / price / fee / supplied-fiat palettes over a handful of history shapes; every figure of every
fraction is recomputed in exact rational arithmetic from the constructor arguments.
"""
from __future__ import annotations

import itertools
import time
from fractions import Fraction
from typing import Any, Dict, Iterator, List, Optional, Sequence, Tuple

from rp2verif import common
from rp2verif import history as H
from rp2verif.common import Stats
from rp2verif.models.lots import F

PROP = "C04"
LEVEL = "exploration"
TOL = Fraction(1, 10**15)
# exchange-supplied fiat values below the spreadsheet resolution cannot be written in an input file
MIN_SUPPLIED = Fraction(1, 10**10)

AMOUNTS_FULL = ["0.00000000001", "0.00000000003", "0.00012345678", "0.3", "1", "7.77777777777", "12345.678901", "1000000000"]
PRICES_FULL = ["0.00000001", "0.000123", "0.07", "1", "3.33", "19999.99", "10000000"]
AMOUNTS_QUICK = ["0.00000000001", "0.3", "7.77777777777", "1000000000"]
PRICES_QUICK = ["0.00000001", "0.000123", "0.07", "3.33", "10000000"]
METHODS = ("fifo", "lifo", "hifo", "lofo")
EARN_TYPES = ("AIRDROP", "HARDFORK", "INCOME", "INTEREST", "MINING", "STAKING", "WAGES")

T0 = "2020-03-01 12:00:00+00:00"
T1 = "2020-03-02 12:00:00+00:00"
T2 = "2020-06-01 12:00:00+00:00"
T3 = "2021-06-01 12:00:00+00:00"


def lot_spec(row: int, ts: str, amount: str, price: str, fee: str, supplied: str, typ: str = "BUY") -> Dict[str, Any]:
    s: Dict[str, Any] = {"table": "in", "timestamp": ts, "exchange": "X1", "holder": "H1", "transaction_type": typ,
                         "spot_price": price, "crypto_in": amount, "row": row}
    a, p = F(amount), F(price)
    if fee == "fiat":
        s["fiat_fee"] = H.dec(Fraction(123, 100))
    if fee == "crypto":
        # fee of the acquisition paid in crypto: its fiat value (fee x spot price) is part of the cost basis
        s["crypto_fee"] = H.dec(a / 8)
    if supplied != "absent":
        # "no-fee-only": the exchange supplies fiat_in_no_fee (different from amount x price) and leaves fiat_in_with_fee empty
        k = Fraction(1) if supplied == "consistent" else Fraction(101, 100)
        no_fee = a * p * k
        if no_fee >= MIN_SUPPLIED:
            s["fiat_in_no_fee"] = H.dec(no_fee)
            if supplied != "no-fee-only":
                s["fiat_in_with_fee"] = H.dec(no_fee + (Fraction(123, 100) if fee == "fiat" else 0) * k)
    return s


def event_spec(row: int, ts: str, amount: Fraction, price: str, cls: str, fee: str, supplied: str) -> Dict[str, Any]:
    p = F(price)
    if cls == "intra":
        # transfer: the fee is what is disposed of
        return {"table": "intra", "timestamp": ts, "from_exchange": "X1", "from_holder": "H1", "to_exchange": "X2", "to_holder": "H1",
                "spot_price": price, "crypto_sent": H.dec(amount * 3), "crypto_received": H.dec(amount * 2), "row": row}
    if cls == "fee":
        s = {"table": "out", "timestamp": ts, "exchange": "X1", "holder": "H1", "transaction_type": "FEE", "spot_price": price,
             "crypto_out_no_fee": "0", "crypto_fee": H.dec(amount), "row": row}
        if supplied != "absent":
            k = Fraction(1) if supplied == "consistent" else Fraction(101, 100)
            if amount * p * k >= MIN_SUPPLIED:
                s["fiat_fee"] = H.dec(amount * p * k)
        return s
    s = {"table": "out", "timestamp": ts, "exchange": "X1", "holder": "H1", "transaction_type": "SELL", "spot_price": price, "row": row}
    if fee == "crypto":
        f = amount / 4
        s["crypto_out_no_fee"] = H.dec(amount - f)
        s["crypto_fee"] = H.dec(f)
    else:
        s["crypto_out_no_fee"] = H.dec(amount)
        s["crypto_fee"] = "0"
        if fee == "fiat":
            s["fiat_fee"] = "0.77"
    if supplied != "absent":
        k = Fraction(1) if supplied == "consistent" else Fraction(101, 100)
        if F(s["crypto_out_no_fee"]) * p * k >= MIN_SUPPLIED:
            s["fiat_out_no_fee"] = H.dec(F(s["crypto_out_no_fee"]) * p * k)
    return s


def finite(x: Fraction) -> bool:
    d = x.denominator
    while d % 2 == 0:
        d //= 2
    while d % 5 == 0:
        d //= 5
    return d == 1


# --- exact model of the figures (from the constructor arguments only) ---


def lot_cost(s: Dict[str, Any]) -> Fraction:
    if s.get("fiat_in_with_fee") is not None:
        return F(s["fiat_in_with_fee"])
    no_fee = F(s["fiat_in_no_fee"]) if s.get("fiat_in_no_fee") is not None else F(s["crypto_in"]) * F(s["spot_price"])
    if s.get("fiat_fee") is not None:
        fee = F(s["fiat_fee"])
    elif s.get("crypto_fee") is not None:
        fee = F(s["crypto_fee"]) * F(s["spot_price"])
    else:
        fee = Fraction(0)
    return no_fee + fee


def event_taxable_fiat_and_total(s: Dict[str, Any]) -> Tuple[Fraction, Fraction]:
    """(taxable fiat value, total crypto leaving the holder) of a taxable event."""
    if s["table"] == "in":
        return lot_cost(s), F(s["crypto_in"])
    if s["table"] == "intra":
        fee = F(s["crypto_sent"]) - F(s["crypto_received"])
        return fee * F(s["spot_price"]), fee
    no_fee = F(s["crypto_out_no_fee"])
    fee = F(s.get("crypto_fee") or 0)
    total = F(s["crypto_out_with_fee"]) if s.get("crypto_out_with_fee") is not None else no_fee + fee
    if s["transaction_type"].upper() == "FEE":
        fiat = F(s["fiat_fee"]) if s.get("fiat_fee") is not None else fee * F(s["spot_price"])
    else:
        fiat = F(s["fiat_out_no_fee"]) if s.get("fiat_out_no_fee") is not None else no_fee * F(s["spot_price"])
    return fiat, total


def close(got: Fraction, want: Fraction, scale: Fraction) -> bool:
    if got == want:
        return True
    return abs(got - want) <= TOL * scale


def check_figures(specs: Sequence[Dict[str, Any]], computed: Any) -> Tuple[List[str], int]:
    by_row = {s["row"]: s for s in specs}
    problems: List[str] = []
    per_event: Dict[int, Fraction] = {}
    per_event_amount: Dict[int, Fraction] = {}
    per_lot: Dict[int, Fraction] = {}
    per_lot_amount: Dict[int, Fraction] = {}
    n = 0
    for gl in computed.gain_loss_set:
        n += 1
        es = by_row[gl.taxable_event.row]
        a = F(gl.crypto_amount)
        fiat, total = event_taxable_fiat_and_total(es)
        want_p = fiat * a / total
        got_p = F(gl.taxable_event_fiat_amount_with_fee_fraction)
        if gl.acquired_lot is not None:
            ls = by_row[gl.acquired_lot.row]
            want_c = lot_cost(ls) * a / F(ls["crypto_in"])
            per_lot[ls["row"]] = per_lot.get(ls["row"], Fraction(0)) + F(gl.fiat_cost_basis)
            per_lot_amount[ls["row"]] = per_lot_amount.get(ls["row"], Fraction(0)) + a
        else:
            want_c = Fraction(0)
        got_c = F(gl.fiat_cost_basis)
        got_g = F(gl.fiat_gain)
        want_g = want_p - want_c
        if not close(got_p, want_p, abs(want_p)):
            problems.append(f"proceeds of fraction {gl.taxable_event.row}->{gl.acquired_lot.row if gl.acquired_lot else None}: {got_p} != {H.dec(want_p) if finite(want_p) else want_p}")
        if not close(got_c, want_c, abs(want_c)):
            problems.append(f"cost basis of fraction {gl.taxable_event.row}->{gl.acquired_lot.row if gl.acquired_lot else None}: {got_c} != {H.dec(want_c) if finite(want_c) else want_c}")
        if not close(got_g, want_g, max(abs(want_p), abs(want_c))):
            problems.append(f"gain of fraction {gl.taxable_event.row}->{gl.acquired_lot.row if gl.acquired_lot else None}: {got_g} != {H.dec(want_g) if finite(want_g) else want_g}")
        per_event[es["row"]] = per_event.get(es["row"], Fraction(0)) + got_p
        per_event_amount[es["row"]] = per_event_amount.get(es["row"], Fraction(0)) + a
    for r, total_p in per_event.items():
        fiat, total = event_taxable_fiat_and_total(by_row[r])
        if per_event_amount[r] == total and not close(total_p, fiat, abs(fiat)):
            problems.append(f"fractions of event row {r} add up to proceeds {total_p}, taxable fiat value is {fiat}")
    # every history here covers all its disposals, so the pieces of EVERY taxable row must add back to its whole taxable fiat value
    # (a transfer fee worth less than 1e-12 fiat is below RP2's comparison precision and may not be an event at all)
    for s in specs:
        r = s["row"]
        if s["table"] == "in" and s["transaction_type"].upper() not in EARN_TYPES:
            continue
        fiat, total = event_taxable_fiat_and_total(s)
        if s["table"] == "intra" and fiat < Fraction(1, 10**12):
            continue
        if per_event_amount.get(r, Fraction(0)) != total and not close(per_event.get(r, Fraction(0)), fiat, abs(fiat)):
            problems.append(f"fractions of event row {r} cover {per_event_amount.get(r, Fraction(0))} of {total} units and add up to proceeds {per_event.get(r, Fraction(0))}, "
                            f"taxable fiat value is {fiat}")
    for r, total_c in per_lot.items():
        if per_lot_amount[r] == F(by_row[r]["crypto_in"]) and not close(total_c, lot_cost(by_row[r]), lot_cost(by_row[r])):
            problems.append(f"fractions of fully consumed lot row {r} add up to cost {total_c}, full cost is {lot_cost(by_row[r])}")
    return problems, n


def cases(tier: str) -> Iterator[Tuple[str, List[Dict[str, Any]], Tuple[str, ...]]]:
    amounts = AMOUNTS_QUICK if tier == "quick" else AMOUNTS_FULL
    prices = PRICES_QUICK if tier == "quick" else PRICES_FULL
    fa = [F(a) for a in amounts]
    lot_fees = ("none", "fiat", "crypto")
    ev_fees = ("none", "crypto", "fiat")
    supplied = ("absent", "consistent", "different")
    lot_supplied = supplied + ("no-fee-only",)
    classes = ("sell", "fee", "intra")
    one = ("fifo",)
    for (A, a), pl, pe, lf, ls_, cls in itertools.product(
        [(A, a) for A in amounts for a in fa if a <= F(A)], prices, prices, lot_fees, lot_supplied, classes
    ):
        for ef, es_ in itertools.product(ev_fees if cls == "sell" else ("none",), supplied if cls != "intra" else ("absent",)):
            if cls == "intra" and a * 3 > F(A):
                continue
            shape = "exact lot" if a == F(A) else "partial lot"
            yield shape, [lot_spec(10, T0, A, pl, lf, ls_), event_spec(11, T1, a, pe, cls, ef, es_)], one
    # one disposal spanning two lots, every method (the split differs per method)
    for A1, A2, x, p1, p2, pe in itertools.product(amounts, amounts, fa, prices[:3], prices[1:], prices[:2]):
        if x > F(A2):
            continue
        a = F(A1) + x
        for lf, cls in (("none", "sell"), ("fiat", "fee")):
            yield "spanning two lots", [lot_spec(10, T0, A1, p1, lf, "absent"), lot_spec(11, T1, A2, p2, "none", "consistent"),
                                        event_spec(12, T2, a, pe, cls, "none", "absent")], METHODS
    # two disposals from one lot (second one a year later)
    for A, a1, a2, pl, pe in itertools.product(amounts, fa, fa, prices, prices[:3]):
        if a1 + a2 > F(A):
            continue
        yield "two disposals from one lot", [lot_spec(10, T0, A, pl, "fiat", "absent"), event_spec(11, T2, a1, pe, "sell", "crypto", "absent"),
                                             event_spec(12, T3, a2, pe, "sell", "none", "different")], one
    # earn events
    for A, p, lf, ls_, typ in itertools.product(amounts, prices, ("none",), supplied, ("INTEREST", "MINING", "AIRDROP")):
        yield "earn event", [lot_spec(10, T0, A, p, lf, ls_, typ)], one


def worker(task: Tuple[str, int, int]) -> Stats:
    from rp2verif.seams import compute as C

    tier, k, n = task
    cfg = C.configuration("us", allow_negative_balances=True)
    st = Stats()
    for idx, (shape, specs, methods) in enumerate(cases(tier)):
        if idx % n != k:
            continue
        for m in methods:
            st.inc("evaluations")
            st.inc(f"shape: {shape}")
            sch = ((1970, m),)
            base = {"shape": shape, "specs": specs, "schedule": [list(x) for x in sch]}
            try:
                out = C.run(specs, sch, cfg)
                err = out.error
            except Exception as exc:  # pylint: disable=broad-except
                out, err = None, exc
            if err is not None:
                st.violation(dict(base, signature=f"C04 valid input rejected / {type(err).__name__}",
                                  what=f"{shape} / {m}: {type(err).__name__}: {err}"))
                continue
            problems, nfr = check_figures(specs, out.computed)
            st.inc("fractions_checked", nfr)
            vals = tuple(sorted((s.get("crypto_in") or s.get("crypto_out_no_fee") or s.get("crypto_sent"), s["spot_price"]) for s in specs))
            st.inc("distinct_nontrivial")
            if problems:
                st.violation(dict(base, signature=f"C04 inexact / {problems[0].split(' of ')[0]}", what=f"{shape} / {m}: {problems[0]}", problems=problems))
            elif shape in ("spanning two lots", "partial lot") and vals[0][0] == "0.00000000001":
                st.sample({"shape": shape, "method": m, "specs": specs,
                           "figures": [{"event": gl.taxable_event.row, "lot": gl.acquired_lot.row if gl.acquired_lot else None, "amount": str(gl.crypto_amount),
                                        "proceeds": str(gl.taxable_event_fiat_amount_with_fee_fraction), "cost": str(gl.fiat_cost_basis), "gain": str(gl.fiat_gain)}
                                       for gl in out.computed.gain_loss_set]}, cap=1)
    return st


def main(tier: str, budget_s: Optional[float] = None) -> int:
    t0 = time.time()
    deadline = t0 + (budget_s or (200 if tier == "quick" else 2400))
    n = 64 if tier == "quick" else 256
    results, done = common.pmap(worker, [(tier, k, n) for k in range(n)], deadline=deadline)
    total = Stats()
    for r in results:
        if r is not None:
            total.merge(r)
    complete = done == n
    new, matched = common.report(PROP, total.violations)
    coverage = {
        "evaluations": total.get("evaluations"),
        "distinct_nontrivial": total.get("distinct_nontrivial"),
        "fractions_checked": total.get("fractions_checked"),
        "rule": (
            "full product of the amount and price palettes with fee variants {none, crypto, fiat}, exchange-supplied fiat columns "
            "{absent, consistent, deliberately different} and disposal classes {SELL, FEE-typed, transfer fee} over the shapes partial lot / "
            "exact lot / spanning two lots (x4 methods) / two disposals from one lot / earn event; every (shape, values) tuple is distinct "
            "by construction and every one involves a division or a product of non-binary decimals (non-trivial)"
        ),
        "amount_palette": AMOUNTS_QUICK if tier == "quick" else AMOUNTS_FULL,
        "price_palette": PRICES_QUICK if tier == "quick" else PRICES_FULL,
        "per_shape": {k[7:]: v for k, v in sorted(total.counters.items()) if k.startswith("shape: ")},
        "tolerance": "1e-15 relative (gain relative to max(|proceeds|, |cost|))",
        "exhaustive": bool(complete),
        "chunks_done": f"{done}/{n}",
        "violations_total": total.get("violations_total"),
        "known_finding_hits": matched,
        "samples": total.samples[:4],
    }
    common.write_evidence(PROP, tier, LEVEL, coverage, time.time() - t0, new, assumptions=[
        "a finite value grid stands in for 'every amount and price': values outside the palettes are not covered",
        "'no binary floating point enters' is decided only through its observable consequences (an exception from the FloatOperation trap, or an error above 1e-15 relative)",
    ])
    print(f"{PROP} {tier}: evaluations={total.get('evaluations')} fractions={total.get('fractions_checked')} violations={total.get('violations_total')} "
          f"(unlisted {new}) exhaustive={complete} wall={time.time() - t0:.1f}s")
    return 1 if new else 0


def replay(path: str) -> int:
    import json

    from rp2verif.seams import compute as C

    with open(path, encoding="utf-8") as f:
        payload = json.load(f)
    specs = payload["specs"]
    sch = [tuple(x) for x in payload["schedule"]]
    out = C.run(specs, sch, C.configuration("us", allow_negative_balances=True))
    if out.error is not None:
        print(f"VIOLATION property={PROP} replay={path}\n  {type(out.error).__name__}: {out.error}")
        return 1
    problems, _ = check_figures(specs, out.computed)
    if problems:
        print(f"VIOLATION property={PROP} replay={path}\n  {problems[0]}")
        return 1
    print(f"replay: {path}: property {PROP} holds on this case")
    return 0
