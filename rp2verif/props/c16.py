"""C16 - every supported option combination runs to completion on every valid input.

CLI seam (the real rp2_<country> entry points, forked from rp2-free workers). The matrix
  entry point x method option x language option x [accounting_methods] section x input shape x date filter
is enumerated (quick: every configuration x every shape x a rotating subset of filters, plus the full filter set for
rp2_us; thorough: the full product). Oracle: exit status 0, every report of the country written and readable, no
traceback.
"""
from __future__ import annotations

import os
import time
from datetime import date
from typing import Any, Dict, List, Optional, Sequence, Tuple

from rp2verif import clishapes as CS
from rp2verif import common
from rp2verif.common import Stats

PROP = "C16"
LEVEL = "exploration"

REPORTS = {
    "us": ["open_positions", "rp2_full_report", "tax_report_us"],
    "jp": ["open_positions", "rp2_full_report", "tax_report_jp"],
    "es": ["open_positions", "rp2_full_report"],
    "ie": ["open_positions", "rp2_full_report", "tax_report_ie"],
    "generic": ["open_positions", "rp2_full_report"],
}
GENERIC_ENV = {"CURRENCY_CODE": "usd", "LONG_TERM_CAPITAL_GAINS": "365"}


def configurations() -> List[Dict[str, Any]]:
    """Every supported (entry point, -m, -g, [accounting_methods]) combination."""
    out: List[Dict[str, Any]] = []
    all4 = ("fifo", "lifo", "hifo", "lofo")
    for cc, methods, langs in (("us", all4, (None, "en")), ("jp", ("fifo",), (None, "en", "kl")), ("es", ("fifo",), (None, "es")), ("ie", ("fifo",), (None, "en_IE")),
                               ("generic", all4, (None, "en"))):
        for m in (None,) + tuple(methods):
            for g in langs:
                if m is not None and g is not None and cc in ("us", "generic") and m != "hifo":
                    continue  # -m x -g are independent options: the full product only for one method
                out.append({"country": cc, "method": m, "lang": g, "section": None})
        # [accounting_methods] sections (never together with -m)
        if len(methods) > 1:
            out.append({"country": cc, "method": None, "lang": None, "section": {2017: "hifo"}})
            out.append({"country": cc, "method": None, "lang": None, "section": {1970: "lifo"}})
            out.append({"country": cc, "method": None, "lang": None, "section": {2017: "fifo", 2021: "hifo"}})
            out.append({"country": cc, "method": None, "lang": None, "section": {2010: "lofo", 2020: "lifo", 2022: "fifo"}})
        else:
            out.append({"country": cc, "method": None, "lang": "en" if cc == "jp" else None, "section": {2015: "fifo"}})
    return out


def filters_for(shape: Dict[str, Any], country: str, mode: str, salt: int) -> List[Tuple[Optional[date], Optional[date]]]:
    ds = CS.filter_dates(shape)
    singles: List[Tuple[Optional[date], Optional[date]]] = [(None, None)] + [(d, None) for d in ds] + [(None, d) for d in ds]
    pairs: List[Tuple[Optional[date], Optional[date]]] = []
    if country != "jp":  # rp2_jp refuses -f together with -t by message: not a supported combination
        pairs = [(f, t) for f in ds for t in ds if f <= t]
    if mode == "all":
        return singles + pairs
    if mode == "singles":
        return singles + pairs[salt % 7::7]
    picked = [(None, None), singles[1 + salt % (len(singles) - 1)], singles[1 + (salt * 7 + 3) % (len(singles) - 1)]]
    if pairs:
        picked.append(pairs[(salt * 5 + 1) % len(pairs)])
    return picked


# the inputs bundled with RP2 (input/*.ods with their config/*.ini), as its own golden-file tests run them: with -n
BUNDLED = [("crypto_example", "crypto_example"), ("test_data", "test_data"), ("test_data2", "test_data"), ("test_data3", "test_data"), ("test_data4", "test_data4"),
           ("test_hifo", "test_data"), ("test_hifo2", "test_data"), ("test_many_year_data", "test_data"), ("test_data_multi_method", "test_data_multi_method")]
BUNDLED_FILTERS = [(None, None), (date(2020, 1, 1), None), (None, date(2019, 12, 31)), (date(2019, 1, 1), date(2019, 12, 31)), (date(2018, 7, 1), date(2020, 6, 30))]


def bundled_cases(tier: str) -> List[Dict[str, Any]]:
    out = []
    k = 0
    for ods, ini in BUNDLED:
        cfgs = [{"country": "us", "method": m, "lang": None, "section": None} for m in (None, "fifo", "lifo", "hifo", "lofo")] + \
               [{"country": c, "method": None, "lang": None, "section": None} for c in ("jp", "es", "ie", "generic")] + [{"country": "jp", "method": None, "lang": "en", "section": None}]
        if ini == "test_data_multi_method":
            cfgs = [c for c in cfgs if c["method"] is None]  # the config file carries an [accounting_methods] section
        for cfg in cfgs:
            k += 1
            filters = BUNDLED_FILTERS if (tier == "thorough" or cfg["country"] == "us" and cfg["method"] in (None, "hifo")) else [BUNDLED_FILTERS[0], BUNDLED_FILTERS[1 + k % 4]]
            for f, t in filters:
                if cfg["country"] == "jp" and f and t:
                    continue  # rp2_jp refuses -f together with -t
                out.append({"cfg": cfg, "shape": f"bundled:{ods}", "bundled": [ods, ini], "from": f, "to": t})
    return out


def build_cases(tier: str) -> List[Dict[str, Any]]:
    shapes = CS.shapes()
    cfgs = configurations()
    out: List[Dict[str, Any]] = []
    k = 0
    for ci, cfg in enumerate(cfgs):
        for name, shape in shapes.items():
            k += 1
            if cfg["section"] is not None:
                first_year = min(d.year for d in CS.event_dates(shape))
                if min(cfg["section"]) > first_year:
                    continue  # a schedule that does not cover the input's first year is not a supported configuration
            if tier == "thorough":
                mode = "all" if (cfg["country"] in ("us", "jp") and cfg["method"] in (None, "hifo") and cfg["section"] is None) else "singles"
            else:
                mode = "singles" if (cfg["country"] == "us" and cfg["method"] is None and cfg["lang"] is None and cfg["section"] is None) else "few"
            for f, t in filters_for(shape, cfg["country"], mode, k):
                out.append({"cfg": cfg, "shape": name, "from": f, "to": t})
    out += bundled_cases(tier)
    for i, c in enumerate(out):
        c["id"] = i
    return out


def case_str(case: Dict[str, Any]) -> str:
    cfg = case["cfg"]
    opts = []
    if cfg["method"]:
        opts.append(f"-m {cfg['method']}")
    if cfg["lang"]:
        opts.append(f"-g {cfg['lang']}")
    if case["from"]:
        opts.append(f"-f {case['from']}")
    if case["to"]:
        opts.append(f"-t {case['to']}")
    sec = f" [accounting_methods]={cfg['section']}" if cfg["section"] else ""
    return f"rp2_{cfg['country']} {' '.join(opts)}{sec} on input '{case['shape']}'"


def run_case(case: Dict[str, Any]) -> Tuple[Any, List[str], str]:
    from rp2verif import odsread
    from rp2verif.seams import cli

    cfg = case["cfg"]
    ws = cli.Workspace(f"c16-{case['id']}")
    try:
        if case.get("bundled"):
            import shutil

            from rp2verif import common

            # copies, so that the run cannot touch the repository's own files
            ini = os.path.join(ws.inp, "config.ini")
            ods = os.path.join(ws.inp, "input.ods")
            shutil.copyfile(os.path.join(common.REPO, "config", case["bundled"][1] + ".ini"), ini)
            shutil.copyfile(os.path.join(common.REPO, "input", case["bundled"][0] + ".ods"), ods)
            argv = ["-n", "-o", ws.out]
        else:
            shape = CS.shapes()[case["shape"]]
            ini = ws.write("config.ini", CS.ini_for(shape, methods=cfg["section"], name=case["shape"]))
            ods = cli.write_ods(os.path.join(ws.inp, "input.ods"), CS.matrices(shape, name=case["shape"]))
            argv = ["-o", ws.out]
        if cfg["method"]:
            argv += ["-m", cfg["method"]]
        if cfg["lang"]:
            argv += ["-g", cfg["lang"]]
        if case["from"]:
            argv += ["-f", case["from"].isoformat()]
        if case["to"]:
            argv += ["-t", case["to"].isoformat()]
        argv += [ini, ods]
        res = cli.run_forked(cfg["country"], argv, ws.cwd, ws.out, env_extra=GENERIC_ENV if cfg["country"] == "generic" else None)
        problems: List[str] = []
        prefix = "mixed" if ((cfg["section"] and len(cfg["section"]) > 1) or (case.get("bundled") and case["bundled"][1] == "test_data_multi_method")) else (list(cfg["section"].values())[0] if cfg["section"] else (cfg["method"] or "fifo"))
        if res.exit == 0:
            for rep in REPORTS[cfg["country"]]:
                name = f"{prefix}_{rep}.ods"
                path = os.path.join(ws.out, name)
                if not os.path.exists(path):
                    problems.append(f"report {name} was not written (files: {res.outputs})")
                    continue
                try:
                    sheets = odsread.read(path)
                    if not sheets:
                        problems.append(f"report {name} has no sheets")
                except Exception as exc:  # pylint: disable=broad-except
                    problems.append(f"report {name} is not a readable spreadsheet: {type(exc).__name__}: {exc}")
            extra = [f for f in res.outputs if not any(f == f"{prefix}_{rep}.ods" for rep in REPORTS[cfg["country"]])]
            if extra:
                problems.append(f"unexpected files in the output directory: {extra}")
        log_text = ""
        logdir = os.path.join(ws.cwd, "log")
        if os.path.isdir(logdir):
            for fn in sorted(os.listdir(logdir)):
                with open(os.path.join(logdir, fn), encoding="utf-8", errors="replace") as fh:
                    log_text += fh.read()
        return res, problems, log_text
    finally:
        ws.remove()


def crash_site(text: str) -> str:
    """'<file>.<function> <ExceptionType>' of the innermost rp2 frame of the last traceback in the output."""
    import re

    frames = re.findall(r'File "[^"]*/rp2/([^"]+)\.py", line \d+, in (\S+)', text)
    exc = re.findall(r"^(\w+(?:\.\w+)*(?:Error|Exception|Exit|Operation|Interrupt))\b", text, re.M)
    site = f"{frames[-1][0].split('/')[-1]}.{frames[-1][1]}" if frames else "?"
    return f"{site} {exc[-1].split('.')[-1] if exc else '?'}"


def judge(st: Stats, case: Dict[str, Any]) -> None:
    st.inc("evaluations")
    st.inc(f"runs_{case['cfg']['country']}")
    res, problems, log_text = run_case(case)
    tag = case_str(case)
    payload = {"case": {"cfg": case["cfg"], "shape": case["shape"], "bundled": case.get("bundled"), "from": case["from"].isoformat() if case["from"] else None,
                        "to": case["to"].isoformat() if case["to"] else None}}
    if case["from"] or case["to"] or case["cfg"]["section"] or case["cfg"]["method"] or case["cfg"]["lang"]:
        st.inc("distinct_nontrivial")
    text = res.stderr + res.stdout + log_text
    if res.exit != 0:
        site = crash_site(text)
        tail = next((l for l in reversed(text.strip().splitlines()) if "Error" in l or "error" in l), text.strip().splitlines()[-1] if text.strip() else "")
        st.violation(dict(payload, signature=f"C16 crash / {site}", what=f"{tag} :: exit status {res.exit}: {tail[:220]}"))
        return
    if problems:
        st.violation(dict(payload, signature=f"C16 report missing or unreadable / {problems[0].split(' ')[0]} {problems[0].split(' ')[1]}", what=f"{tag} :: {problems[0]}"))
        return
    if "Traceback (most recent call last)" in text:
        st.violation(dict(payload, signature=f"C16 traceback despite exit 0 / {crash_site(text)}", what=f"{tag} :: exit 0 but a traceback was logged"))
        return
    st.inc("completed_ok")
    st.sample({"run": tag, "exit": res.exit, "reports": res.outputs}, cap=1)


def worker(chunk: List[Dict[str, Any]]) -> Stats:
    st = Stats()
    for c in chunk:
        judge(st, c)
    return st


def init() -> None:
    from rp2verif.seams import cli

    cli.preload()


def main(tier: str, budget_s: Optional[float] = None) -> int:
    t0 = time.time()
    deadline = t0 + (budget_s or (280 if tier == "quick" else 3400))
    cases = build_cases(tier)
    n = max(1, min(len(cases), common.NPROC * 16))
    chunks = [cases[i::n] for i in range(n)]
    results, done = common.pmap(worker, chunks, deadline=deadline, init=init)
    total = Stats()
    for r in results:
        if r is not None:
            total.merge(r)
    complete = done == len(chunks)
    new, matched = common.report(PROP, total.violations)
    cfgs = configurations()
    coverage = {
        "evaluations": total.get("evaluations"),
        "distinct_nontrivial": total.get("distinct_nontrivial"),
        "cases_planned": len(cases),
        "completed_with_all_reports": total.get("completed_ok"),
        "runs_per_entry_point": {k[5:]: v for k, v in sorted(total.counters.items()) if k.startswith("runs_")},
        "configurations": len(cfgs),
        "input_shapes": sorted(CS.shapes()),
        "rule": (
            "every supported configuration (entry point x -m: default and every accepted method x -g: default and every language with templates x "
            "[accounting_methods]: absent / one entry / several entries covering the input) x every input shape x date filters drawn from {before all, "
            "each year start / mid-year / year end, the day of and the day after the last taxable event of a year, the day of its first one, the day before an asset's first acquisition, after "
            "all}: quick = no filter + 3 rotating filters per (configuration, shape), and every single-bound filter for plain rp2_us; thorough = every "
            "single-bound filter everywhere and every from <= to pair for rp2_us / rp2_jp defaults. One evaluation = one real CLI run in a fresh forked "
            "process. non-trivial = any option beyond the two file arguments"
        ),
        "exhaustive": bool(complete),
        "violations_total": total.get("violations_total"),
        "known_finding_hits": matched,
        "samples": total.samples[:6],
    }
    common.write_evidence(PROP, tier, LEVEL, coverage, time.time() - t0, new, assumptions=[
        "supported = what RP2 documents and does not itself refuse by message: rp2_jp with -f and -t together, and schedules that do not cover the input's first year, are excluded",
        "rp2_generic runs with CURRENCY_CODE=usd LONG_TERM_CAPITAL_GAINS=365",
    ])
    print(f"{PROP} {tier}: evaluations={total.get('evaluations')} of {len(cases)} ok={total.get('completed_ok')} violations={total.get('violations_total')} "
          f"(unlisted {new}) exhaustive={complete} wall={time.time() - t0:.1f}s")
    return 1 if new else 0


def replay(path: str) -> int:
    import json
    import multiprocessing as mp

    with open(path, encoding="utf-8") as f:
        p = json.load(f)
    c = p["case"]
    cfg = dict(c["cfg"])
    if cfg.get("section"):
        cfg["section"] = {int(k): v for k, v in cfg["section"].items()}
    case = {"id": "replay", "cfg": cfg, "shape": c["shape"], "bundled": c.get("bundled"), "from": date.fromisoformat(c["from"]) if c["from"] else None, "to": date.fromisoformat(c["to"]) if c["to"] else None}
    ctx = mp.get_context("fork")
    with ctx.Pool(1, initializer=init) as pool:
        st = pool.apply(worker, ([case],))
    if st.violations:
        print(f"VIOLATION property={PROP} replay={path}\n  {st.violations[0]['what']}")
        return 1
    print(f"replay: {path}: property {PROP} holds on this case")
    return 0
