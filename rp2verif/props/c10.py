"""C10 - date filters only hide rows; they never change the figures shown.

Every node of the multi-year prefix tree x EVERY pair from <= to over the dates of interest (each transaction date,
+-1 day, Jan 1 / Dec 31 / Jul 1 of touched years, a date before and a date after everything). Differential oracle:
the windowed run is compared with the unfiltered run U (rows / figures) and the to-only run T (counts, balances,
average price, yearly lines) of the same real code.
"""
from __future__ import annotations

import time
from datetime import date, datetime, timedelta, timezone
from fractions import Fraction
from typing import Any, Dict, List, Optional, Sequence, Set, Tuple

from rp2verif import common
from rp2verif import history as H
from rp2verif.common import Stats
from rp2verif.lotrun import run_phases, sched_str
from rp2verif.lottree import History, Tree
from rp2verif.models.lots import parse_ts

PROP = "C10"
LEVEL = "exploration"

SYMBOLS = [
    H.B(1, 2), H.B(2, 1), H.E(1, 1, "INTEREST"),
    H.S(1), H.S(2), H.S(1, typ="GIFT"), H.M(2, 1),
]
FIRST = [s for s in SYMBOLS if s[0] in ("B", "E")]
EXTRA = None
STEPS = ("d", "200d", "y")

FIG = ("event", "lot", "type", "amount", "proceeds", "cost", "gain", "long")
CNT = ("event_k", "event_n", "lot_k", "lot_n")

# second variant: every timestamp carries +09:00 and the base instant is 18:00 UTC, so each transaction's own calendar
# date is one day later than its UTC date
BASE_TZ = datetime(2020, 3, 1, 18, 0, 0, tzinfo=timezone.utc)


def dates_of_interest(specs: Sequence[Dict[str, Any]]) -> List[date]:
    ev = sorted({parse_ts(s["timestamp"]).date() for s in specs})
    out: Set[date] = set()
    for d in ev:
        out |= {d, d - timedelta(days=1), d + timedelta(days=1)}
    for y in sorted({d.year for d in ev}):
        out |= {date(y, 1, 1), date(y, 12, 31), date(y, 7, 1)}
    out.add(ev[0] - timedelta(days=40))
    out.add(ev[-1] + timedelta(days=40))
    return sorted(out)


def in_window(d: date, fd: Optional[date], td: Optional[date]) -> bool:
    return (fd is None or d >= fd) and (td is None or d <= td)


def judge_window(C: Any, specs: Sequence[Dict[str, Any]], U: Dict[str, Any], T: Dict[str, Any], W: Dict[str, Any],
                 fd: Optional[date], td: Optional[date]) -> Optional[str]:
    own = {s["row"]: parse_ts(s["timestamp"]).date() for s in specs}
    # rows shown per table = exactly the rows whose own date lies in the window, with the unfiltered running sums
    for table in ("in", "out", "intra"):
        want = [r for r in U[table] if in_window(own[r[0]], fd, td)]
        got = W[table]
        if table == "in":  # sold % is defined per window; not judged here (C09 decides it for to-date)
            want = [r[:3] for r in want]
            got = [r[:3] for r in got]
        if got != want:
            return f"{table.upper()} rows shown {[r[0] for r in got]} / running sums differ from the rows dated in the window {[r[0] for r in want]}: {got} vs {want}"
    # sold % of every lot shown = the fractions shown for that lot / the lot's amount (what the reader can add up on the page)
    lot_amount = {s2["row"]: Fraction(str(s2["crypto_in"])) for s2 in specs if s2["table"] == "in"}
    sold: Dict[Any, Fraction] = {}
    for r in W["detail"]:
        if r["lot"] is not None:
            sold[r["lot"]] = sold.get(r["lot"], Fraction(0)) + r["amount"]
    for r in W["in"]:
        want_pct = sold.get(r[0], Fraction(0)) / lot_amount[r[0]]
        if abs(r[3] - want_pct) > Fraction(1, 10**20):
            return f"IN row {r[0]}: sold % {float(r[3])} != fractions shown for this lot / lot amount = {float(want_pct)}"
    want_tax = [r for r in U["taxable"] if in_window(own[r], fd, td)]
    if W["taxable"] != want_tax:
        return f"taxable events shown {W['taxable']} != events dated in the window {want_tax}"
    # fractions shown = the unfiltered run's fractions whose event date is in the window, identical figures
    wantf = [r for r in U["detail"] if in_window(r["event_ts"].date(), fd, td)]
    gotf = W["detail"]
    if [(r["event"], r["lot"]) for r in gotf] != [(r["event"], r["lot"]) for r in wantf]:
        return f"fractions shown {[(r['event'], r['lot']) for r in gotf]} != unfiltered fractions dated in the window {[(r['event'], r['lot']) for r in wantf]}"
    for g, w in zip(gotf, wantf):
        for k in FIG + ("running",):
            if g[k] != w[k]:
                return f"fraction (event row {g['event']}, lot row {g['lot']}): {k} {g[k]} with the filter != {w[k]} unfiltered"
    # fraction counts reflect all history up to the to-date (= the to-only run)
    tcount: Dict[Tuple[Any, Any], List[Dict[str, Any]]] = {}
    for r in T["detail"]:
        tcount.setdefault((r["event"], r["lot"]), []).append(r)
    idx: Dict[Tuple[Any, Any], int] = {}
    for g in gotf:
        key = (g["event"], g["lot"])
        i = idx.get(key, 0)
        idx[key] = i + 1
        cands = tcount.get(key, [])
        if i >= len(cands):
            return f"fraction (event row {g['event']}, lot row {g['lot']}) is not in the to-date-only run"
        t = cands[i]
        for k in CNT:
            if g[k] != t[k]:
                return f"fraction (event row {g['event']}, lot row {g['lot']}): {k} {g[k]} != {t[k]} of the run limited by the to-date only"
    # ... and the same counts recomputed from the unfiltered run's own fraction list cut at the to-date: k counts the fractions of the
    # same event / the same lot so far, n is their number up to the to-date
    upto = [r for r in U["detail"] if td is None or r["event_ts"].date() <= td]
    ev_n: Dict[Any, int] = {}
    lot_n: Dict[Any, int] = {}
    for r in upto:
        ev_n[r["event"]] = ev_n.get(r["event"], 0) + 1
        if r["lot"] is not None:
            lot_n[r["lot"]] = lot_n.get(r["lot"], 0) + 1
    ev_k: Dict[Any, int] = {}
    lot_k: Dict[Any, int] = {}
    labels = []
    for r in upto:
        ev_k[r["event"]] = ev_k.get(r["event"], 0) + 1
        if r["lot"] is not None:
            lot_k[r["lot"]] = lot_k.get(r["lot"], 0) + 1
        if in_window(r["event_ts"].date(), fd, td):
            labels.append({"event_k": ev_k[r["event"]], "event_n": ev_n[r["event"]], "lot_k": lot_k.get(r["lot"]), "lot_n": lot_n.get(r["lot"])})
    if len(labels) == len(gotf):
        for g, lab in zip(gotf, labels):
            for k in CNT:
                if g[k] != lab[k]:
                    return f"fraction (event row {g['event']}, lot row {g['lot']}): {k} {g[k]} shown, {lab[k]} counted over the fractions dated up to the to-date"
    if W["balances"] != T["balances"]:
        return f"balances {W['balances']} != balances of the run limited by the to-date only {T['balances']}"
    if W["price_per_unit"] != T["price_per_unit"]:
        return f"average price {W['price_per_unit']} != {T['price_per_unit']} of the run limited by the to-date only"
    want_lines = {k: v for k, v in T["yearly"].items() if fd is None or k[0] >= fd.year}
    if W["yearly"] != want_lines or W["yearly_dups"]:
        return f"yearly lines {sorted(map(str, W['yearly']))} != to-date-only lines of years >= from-year {sorted(map(str, want_lines))} (or values differ)"
    return None


def judge_node(st: Stats, hist: History, specs: List[Dict[str, Any]], sch: Sequence[Tuple[int, str]], label: str,
               only: Optional[Tuple[Optional[date], Optional[date]]] = None, dates_override: Optional[List[date]] = None, name: Optional[str] = None) -> None:
    from rp2verif.seams import compute as C

    st.inc("histories")
    hs = name or H.hist_str(hist)
    base = {"history": hs, "hist": hist, "specs": specs, "schedule": list(sch), "variant": label}
    u = C.run_window(specs, sch)
    if not u.ok:
        st.inc("evaluations")
        st.violation(dict(base, signature=f"C10 valid history rejected / {type(u.error).__name__}",
                          what=f"{sched_str(sch)}: {hs} :: {type(u.error).__name__}: {u.error}"))
        return
    U, uerr = C.try_dump(u.computed)
    if U is None:
        st.inc("evaluations")
        st.violation(dict(base, signature="C10 figures unreadable / unfiltered run", what=f"{sched_str(sch)}: {hs} :: {uerr}"))
        return
    dates = dates_override if dates_override is not None else dates_of_interest(specs)
    tos: List[Optional[date]] = [None] + list(dates)
    froms: List[Optional[date]] = [None] + list(dates)
    hidden_any = False
    for td in tos:
        if only is not None and td != only[1]:
            continue
        if td is None:
            T = U
        else:
            t = C.run_window(specs, sch, None, td)
            if not t.ok:
                st.inc("evaluations")
                st.violation(dict(base, from_date=None, to_date=str(td), signature=f"C10 window rejected / {type(t.error).__name__}",
                                  what=f"{sched_str(sch)} -t {td}: {hs} :: {type(t.error).__name__}: {t.error}"))
                continue
            T, terr = C.try_dump(t.computed)
            if T is None:
                st.inc("evaluations")
                st.violation(dict(base, from_date=None, to_date=str(td), signature="C10 figures unreadable / to-date run", what=f"{sched_str(sch)} -t {td}: {hs} :: {terr}"))
                continue
        for fd in froms:
            if only is not None and fd != only[0]:
                continue
            if fd is not None and td is not None and fd > td:
                continue
            if fd is None and td is None:
                continue
            st.inc("evaluations")
            st.inc(f"evaluations_depth_{len(hist)}")
            if fd is None:
                W = T
            else:
                w = C.run_window(specs, sch, fd, td)
                if not w.ok:
                    st.violation(dict(base, from_date=str(fd), to_date=str(td) if td else None, signature=f"C10 window rejected / {type(w.error).__name__}",
                                      what=f"{sched_str(sch)} -f {fd} -t {td}: {hs} :: {type(w.error).__name__}: {w.error}"))
                    continue
                W, werr = C.try_dump(w.computed)
                if W is None:
                    st.violation(dict(base, from_date=str(fd), to_date=str(td) if td else None, signature="C10 figures unreadable / windowed run",
                                      what=f"{sched_str(sch)} -f {fd} -t {td}: {hs} :: {werr}"))
                    continue
            problem = judge_window(C, specs, U, T, W, fd, td)
            hides = len(W["detail"]) < len(U["detail"]) and len(W["detail"]) > 0
            if hides:
                st.inc("distinct_nontrivial")
                hidden_any = True
            if problem:
                st.violation(dict(base, from_date=str(fd) if fd else None, to_date=str(td) if td else None,
                                  signature=f"C10 {problem.split(' ')[0]} {problem.split(' ')[1]} / {'from' if fd else ''}{'+to' if td else ''}",
                                  what=f"{sched_str(sch)} -f {fd} -t {td}: {hs}{' [' + label + ']' if label else ''} :: {problem}"))
    if hidden_any:
        st.sample({"history": hs, "variant": label, "schedule": sched_str(sch), "dates_of_interest": [str(d) for d in dates],
                   "windows": (len(dates) + 1) * (len(dates) + 2) // 2}, cap=1)


# ------------------------------------------------------------------------------------------------------------------
# end-to-end slice: an [accounting_methods] schedule in the CONFIG FILE x from-dates, through the real command line. The schedule
# reaches the engine through Configuration, which also knows the from-date - a path the compute seam above does not take.

SECTIONS = ({2010: "fifo", 2021: "lifo"}, {2010: "lifo", 2021: "hifo"}, {2010: "hifo", 2020: "fifo", 2022: "lifo"}, {2010: "lofo", 2021: "fifo"})


def cli_shapes() -> Dict[str, Any]:
    from rp2verif import clishapes as CS

    shapes = {k: v for k, v in CS.shapes().items() if k in ("single", "multi", "many_lots", "sparse_years")}
    # two lots, each partly sold in 2020 and in 2021: what is left for 2021 depends on the method of 2020
    shapes["two_lots_two_years"] = {"B1": [
        ("in", [CS._in("B1", "2019-05-01 10:00:00+00:00", "2", "100", uid="lotA"), CS._in("B1", "2019-06-01 10:00:00+00:00", "2", "300", uid="lotB")]),
        ("out", [CS._out("B1", "2020-04-01 10:00:00+00:00", "1", "400", uid="sale2020"), CS._out("B1", "2021-04-01 10:00:00+00:00", "1.5", "500", uid="sale2021"),
                 CS._out("B1", "2022-04-01 10:00:00+00:00", "1", "600", uid="sale2022")]),
    ]}
    return shapes


def cli_worker(task: Tuple[str, int]) -> Stats:
    import os
    from datetime import datetime

    from rp2verif import clishapes as CS
    from rp2verif import odsread as O
    from rp2verif.seams import cli

    name, si = task
    shape = cli_shapes()[name]
    section = SECTIONS[si]
    st = Stats()
    ws = cli.Workspace(f"c10-{name}-{si}")

    def detail_rows(out_dir: str) -> Optional[Dict[str, List[Tuple[Any, ...]]]]:
        path = os.path.join(out_dir, "mixed_rp2_full_report.ods")
        if not os.path.exists(path):
            return None
        sheets = O.read(path)
        res: Dict[str, List[Tuple[Any, ...]]] = {}
        for asset in sorted(shape):
            rows = sheets.get(f"{asset} Tax") or []
            hits = O.find_rows(rows, "Gain / Loss Detail")
            if len(hits) != 1:
                return None
            _s, idx = O.table_after(rows, hits[0], key_col=1)
            res[asset] = [(O.plain(O.cell(rows, i, 5)), O.plain(O.cell(rows, i, 10)), O.plain(O.cell(rows, i, 18)) or None, O.num(O.cell(rows, i, 0)), O.num(O.cell(rows, i, 8)),
                           O.num(O.cell(rows, i, 16)) if not O.is_blank(O.plain(O.cell(rows, i, 16))) else None, O.num(O.cell(rows, i, 3)), O.plain(O.cell(rows, i, 4))) for i in idx]
        return res

    try:
        ini = ws.write("config.ini", CS.ini_for(shape, methods=section))
        ods = cli.write_ods(os.path.join(ws.inp, "input.ods"), CS.matrices(shape))
        res = cli.run_forked("us", ["-o", ws.out, ini, ods], ws.cwd, ws.out)
        base = {"cli": True, "shape": name, "section": {str(k): v for k, v in section.items()}}
        full = detail_rows(ws.out) if res.exit == 0 else None
        st.inc("cli_runs")
        if full is None:
            st.violation(dict(base, from_date=None, signature="C10 cli: unfiltered run failed", what=f"rp2_us [accounting_methods]={section} on '{name}': {res.brief()}"))
            return st
        years = sorted({d.year for d in CS.event_dates(shape)})
        froms = sorted({date(y, 1, 1) for y in years} | {date(y, 7, 1) for y in years})
        for fd in froms:
            st.inc("cli_runs")
            st.inc("evaluations")
            ws.clean_out()
            r2 = cli.run_forked("us", ["-o", ws.out, "-f", fd.isoformat(), ini, ods], ws.cwd, ws.out)
            got = detail_rows(ws.out) if r2.exit == 0 else None
            tag = f"rp2_us -f {fd} [accounting_methods]={section} on '{name}'"
            if got is None:
                st.violation(dict(base, from_date=str(fd), signature="C10 cli: windowed run failed", what=f"{tag}: {r2.brief()}"))
                continue
            for asset in sorted(shape):
                want = [r for r in full[asset] if datetime.fromisoformat(r[0]).date() >= fd]
                if want and len(want) < len(full[asset]):
                    st.inc("distinct_nontrivial")
                if got[asset] != want:
                    diff = next((f"{g} vs unfiltered {w}" for g, w in zip(got[asset], want) if g != w), f"{len(got[asset])} rows vs {len(want)}")
                    st.violation(dict(base, from_date=str(fd), signature="C10 cli: figures shown with -f differ from the unfiltered run",
                                      what=f"{tag}: {asset} Gain/Loss Detail (timestamp, event id, lot id, amount, proceeds, cost, gain, term): {diff}"))
                    break
    finally:
        ws.remove()
    return st


def cli_init() -> None:
    from rp2verif.seams import cli

    cli.preload()


def variants(hist: History, row_order: str, tz: bool) -> List[Tuple[History, List[Dict[str, Any]], str]]:
    out = []
    specs = H.materialize(hist, row_order=row_order)
    if specs is not None:
        out.append((hist, specs, ""))
    if tz:
        h2 = tuple((it[0], it[1], 540) for it in hist)
        s2 = H.materialize(h2, row_order=row_order, base=BASE_TZ)
        if s2 is not None:
            out.append((h2, s2, "all timestamps +09:00"))
    return out


def worker(task: Tuple[Any, ...]) -> Stats:
    root, depth, schedules, steps, dev, row_order = task[:6]
    tree = Tree(FIRST, SYMBOLS, steps, EXTRA)
    st = Stats()
    for hist in tree.level(root, depth):
        for h2, specs, label in variants(hist, row_order, tz=(dev == "tz")):
            if dev == "tz" and not label:
                continue
            for sch in schedules:
                judge_node(st, h2, specs, sch, label)
    return st


def bundled_worker(chunk: List[Tuple[str, str]]) -> Stats:
    """The inputs bundled with RP2, per asset sheet: every window from <= to over the transaction dates and the year bounds."""
    from rp2verif import bundled

    st = Stats()
    data = bundled.load()
    for fname, asset in chunk:
        specs = data[fname][asset]
        ev = sorted({parse_ts(s2["timestamp"]).date() for s2 in specs})
        dates = sorted(set(ev) | {date(y, 1, 1) for y in {d.year for d in ev}} | {date(y, 12, 31) for y in {d.year for d in ev}})
        own = bundled.schedule_of(fname)
        for sch in [((1970, "fifo"),), ((1970, "hifo"),)] + ([tuple((int(y), m) for y, m in own)] if own else []):
            st.inc("bundled_nodes")
            judge_node(st, (), specs, sch, "", dates_override=dates, name=f"bundled input {fname}.ods, asset {asset} ({len(specs)} transactions)")
    return st


def plan(tier: str) -> List[Dict[str, Any]]:
    fifo = [((1970, "fifo"),)]
    hifo = [((1970, "hifo"),)]
    if tier == "quick":
        return [
            {"name": "all windows, fifo + hifo", "schedules": fifo + hifo, "steps": STEPS, "depth": 3, "dev": 0, "group": 1},
            {"name": "all windows, +09:00 timestamps", "schedules": fifo, "steps": ("d", "y"), "depth": 3, "dev": "tz", "group": 1},
        ]
    return [
        {"name": "all windows, 4 methods", "schedules": [((1970, m),) for m in ("fifo", "lifo", "hifo", "lofo")], "steps": STEPS, "depth": 3, "dev": 0, "group": 1},
        {"name": "all windows, +09:00 timestamps", "schedules": fifo + hifo, "steps": STEPS, "depth": 3, "dev": "tz", "group": 1},
        {"name": "sheet order reversed", "schedules": hifo, "steps": STEPS, "depth": 3, "dev": 0, "group": 1, "row_order": "reverse"},
        {"name": "all windows, depth 4", "schedules": fifo + hifo, "steps": STEPS, "depth": 4, "dev": 0, "group": 1, "from_depth": 4},
    ]


def main(tier: str, budget_s: Optional[float] = None) -> int:
    t0 = time.time()
    deadline = t0 + (budget_s or (240 if tier == "quick" else 3300))
    cli_tasks = [(n, i) for n in sorted(cli_shapes()) for i in range(len(SECTIONS))]
    cres, cdone = common.pmap(cli_worker, cli_tasks, deadline=deadline, init=cli_init)  # first: this process is rp2-free
    total, info, complete = run_phases(plan(tier), worker, FIRST, SYMBOLS, EXTRA, deadline, by_depth=True)
    from rp2verif import bundled as _B

    bt = _B.sheets()
    tb = time.time()
    bres, bdone = common.pmap(bundled_worker, [[x] for x in bt], deadline=max(deadline, time.time() + 120))
    for r in bres:
        if r is not None:
            total.merge(r)
    complete = complete and bdone == len(bt)
    info.append({"phase": "inputs bundled with RP2: every window over the transaction dates and year bounds, per asset sheet of the 9 files x fifo / hifo (+ the file's own schedule)",
                 "asset_sheets": len(bt), "executions": total.get("bundled_nodes"), "wall_s": round(time.time() - tb, 1)})
    ctotal = Stats()
    for r in cres:
        if r is not None:
            ctotal.merge(r)
    total.merge(ctotal)
    complete = complete and cdone == len(cli_tasks)
    info.append({"phase": "end-to-end: [accounting_methods] schedule in the config file x every Jan 1 / Jul 1 from-date, real CLI, detail rows vs the unfiltered run",
                 "inputs": sorted(cli_shapes()), "schedules": [str(x) for x in SECTIONS], "cli_runs": ctotal.get("cli_runs"), "windowed_runs_compared": ctotal.get("evaluations")})
    new, matched = common.report(PROP, total.violations)
    coverage = {
        "evaluations": total.get("evaluations"),
        "distinct_nontrivial": total.get("distinct_nontrivial"),
        "histories_x_methods": total.get("histories"),
        "rule": (
            "every node of the multi-year prefix tree x method x EVERY pair from <= to (either may be absent) over the dates of interest "
            "(each transaction's own date, the day before and after, Jan 1 / Jul 1 / Dec 31 of touched years, 40 days before the first and "
            "after the last transaction); evaluations = (history, method, window) triples, distinct by construction; non-trivial = the window "
            "shows some but not all gain/loss fractions"
        ),
        "alphabet": [H.sym_str(s) for s in SYMBOLS],
        "steps": list(STEPS),
        "phases": info,
        "per_depth": {k: v for k, v in sorted(total.counters.items()) if k.startswith("evaluations_depth_")},
        "exhaustive": bool(complete),
        "violations_total": total.get("violations_total"),
        "known_finding_hits": matched,
        "samples": total.samples[:5],
    }
    common.write_evidence(PROP, tier, LEVEL, coverage, time.time() - t0, new, assumptions=[
        "one UTC offset per run (UTC, or +09:00 on every row): mixed offsets around midnight at a filter bound are outside the alphabet",
        "the sold-percentage column of the IN table is defined per window and not judged here",
    ])
    print(f"{PROP} {tier}: evaluations={total.get('evaluations')} histories={total.get('histories')} nontrivial={total.get('distinct_nontrivial')} "
          f"violations={total.get('violations_total')} (unlisted {new}) exhaustive={complete} wall={time.time() - t0:.1f}s")
    for i in info:
        print("  ", i)
    return 1 if new else 0


def replay(path: str) -> int:
    import json

    from rp2verif.lotrun import _to_tuple

    with open(path, encoding="utf-8") as f:
        p = json.load(f)
    if p.get("cli"):
        import multiprocessing as mp

        si = next(i for i, sec in enumerate(SECTIONS) if {str(k): v for k, v in sec.items()} == p["section"])
        with mp.get_context("fork").Pool(1, initializer=cli_init) as pool:
            st = pool.apply(cli_worker, ((p["shape"], si),))
        if st.violations:
            print(f"VIOLATION property={PROP} replay={path}\n  {st.violations[0]['what']}")
            return 1
        print(f"replay: {path}: property {PROP} holds on this case")
        return 0
    fd = date.fromisoformat(p["from_date"]) if p.get("from_date") else None
    td = date.fromisoformat(p["to_date"]) if p.get("to_date") else None
    st = Stats()
    judge_node(st, _to_tuple(p["hist"]), p["specs"], [tuple(x) for x in p["schedule"]], p.get("variant", ""), only=(fd, td))
    if st.violations:
        print(f"VIOLATION property={PROP} replay={path}\n  {st.violations[0]['what']}")
        return 1
    print(f"replay: {path}: property {PROP} holds on this case")
    return 0
