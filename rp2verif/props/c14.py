"""C14 - the tax report lists every fraction once, on the sheet of its transaction type.

Generator seam (tax_report_us, tax_report_ie). Two assets; every ordered pair of the 14 taxable kinds (7 income types,
6 OUT types, fee-bearing transfer) - kind k1 on asset B1, kind k2 on asset B2 - plus singletons and all kinds at once,
each disposal spanning a lot older and a lot younger than one year; x window (none / from / to). The written file is
read back: every fraction of the window on exactly one row of exactly the sheet of its type, values as computed,
sheets without rows absent.
"""
from __future__ import annotations

import time
from datetime import date, datetime
from fractions import Fraction
from typing import Any, Dict, List, Optional, Sequence, Tuple

from rp2verif import common
from rp2verif.common import Stats

PROP = "C14"
LEVEL = "exploration"

EARN = ("AIRDROP", "HARDFORK", "INCOME", "INTEREST", "MINING", "STAKING", "WAGES")
OUT = ("DONATE", "FEE", "GIFT", "LOST", "SELL", "STAKING")
KINDS = tuple(f"IN/{t}" for t in EARN) + tuple(f"OUT/{t}" for t in OUT) + ("INTRA/MOVE",)

# independent of the plugins: which sheet a fraction of a given transaction type belongs on
SHEET_OF = {
    "AIRDROP": "Airdrops", "HARDFORK": "Hard Forks", "INCOME": "Income", "INTEREST": "Interest", "MINING": "Mining", "STAKING": "Staking", "WAGES": "Wages",
    "SELL": "Capital Gains", "GIFT": "Gifts", "DONATE": "Donations", "FEE": "Investment Expenses", "LOST": "Investment Expenses", "MOVE": "Investment Expenses",
}
EARN_TYPES = ("AIRDROP", "HARDFORK", "INCOME", "INTEREST", "MINING", "STAKING", "WAGES")
DATE_FMT = {"us": "%m/%d/%Y", "ie": "%Y/%m/%d"}
# none / from / to, and both bounds ON the day of the first event of asset B1 (2020-09-01): inclusive on both sides
WINDOWS: List[Tuple[Optional[date], Optional[date]]] = [(None, None), (date(2021, 1, 1), None), (None, date(2020, 12, 31)), (date(2020, 9, 1), date(2020, 9, 1))]


def asset_specs(asset: str, kinds: Sequence[str], shift: int, zones: bool = False, utc_twin: bool = False) -> List[Dict[str, Any]]:
    """Two covering lots (one more than a year old at the first event, one younger), then one event per kind: the first on
    2020-09-01, later ones 6 months apart (so that a window bound separates them). Disposals span both lots."""
    from rp2verif.history import dec

    rows: List[Dict[str, Any]] = []
    n = 0

    def add(r: Dict[str, Any]) -> None:
        nonlocal n
        r["row"] = n
        r["sym"] = ""
        r.setdefault("unique_id", f"{asset}-{n}")
        n += 1
        rows.append(r)

    need = sum(Fraction(3, 2) for k in kinds if not k.startswith("IN/"))
    add({"table": "in", "timestamp": f"2019-01-{10 + shift:02d} 10:00:00+00:00", "exchange": "X1", "holder": "H1", "transaction_type": "BUY", "spot_price": "100", "crypto_in": "1"})
    add({"table": "in", "timestamp": f"2020-06-{10 + shift:02d} 10:00:00+00:00", "exchange": "X1", "holder": "H1", "transaction_type": "BUY", "spot_price": "300",
         "crypto_in": dec(max(need, Fraction(1)) + 1)})
    if zones:
        # own calendar date != UTC date: 23:30 at -05:00 is the next day in UTC, 00:30 at +09:00 the previous one
        rows[0]["timestamp"] = f"2019-01-{10 + shift:02d} 23:30:00-05:00"
        rows[1]["timestamp"] = f"2020-06-{10 + shift:02d} 00:30:00+09:00"
    for i, k in enumerate(kinds):
        month = 9 + 6 * i
        ts = f"{2020 + (month - 1) // 12}-{(month - 1) % 12 + 1:02d}-{1 + shift:02d} 1{i % 10}:00:00+00:00"
        if zones:
            ts = f"{2020 + (month - 1) // 12}-{(month - 1) % 12 + 1:02d}-{1 + shift:02d} " + ("00:30:00+09:00" if i % 2 == 0 else "22:00:00-04:00")
        table, typ = k.split("/")
        if table == "IN":
            add({"table": "in", "timestamp": ts, "exchange": "X2", "holder": "H1", "transaction_type": typ, "spot_price": "250", "crypto_in": "0.25"})
        elif table == "OUT":
            if typ == "FEE":
                add({"table": "out", "timestamp": ts, "exchange": "X1", "holder": "H1", "transaction_type": typ, "spot_price": "400", "crypto_out_no_fee": "0", "crypto_fee": "1.5"})
            else:
                add({"table": "out", "timestamp": ts, "exchange": "X1", "holder": "H1", "transaction_type": typ, "spot_price": "400", "crypto_out_no_fee": "1.25", "crypto_fee": "0.25"})
        else:
            add({"table": "intra", "timestamp": ts, "from_exchange": "X1", "from_holder": "H1", "to_exchange": "X2", "to_holder": "H1", "spot_price": "400", "crypto_sent": "2",
                 "crypto_received": "0.5"})
    if utc_twin:
        # the very same instants written in UTC: equal as instants to the other asset's timestamps, on another calendar day as written
        from datetime import datetime, timezone

        for r in rows:
            r["timestamp"] = datetime.fromisoformat(r["timestamp"]).astimezone(timezone.utc).isoformat(sep=" ")
    return rows


def build_case(k1: Sequence[str], k2: Optional[Sequence[str]], window: Tuple[Optional[date], Optional[date]], country: str, zones: bool = False,
               method: str = "fifo", utc_twin: bool = False) -> Dict[str, Any]:
    from rp2verif import frdriver as D

    assets = {"B1": asset_specs("B1", k1, 0, zones)}
    if k2 is not None:
        # utc_twin: asset B2's transactions happen at the SAME instants as B1's, but are written in UTC (another calendar day as written)
        assets["B2"] = asset_specs("B2", k2, 0 if utc_twin else 3, zones, utc_twin)
    sheets = {}
    for a in list(assets):
        sheets[a], assets[a] = D.to_sheet(assets[a], a)
    return {"label": f"rp2_{country} B1={'+'.join(k1)}" + (f" B2={'+'.join(k2)}" if k2 is not None else "") + f" -f {window[0]} -t {window[1]}" + (" [offsets]" if zones else "") + (" [B2 = the same instants written in UTC]" if utc_twin else "")
            + (f" [{method}]" if method != "fifo" else ""),
            "zones": zones, "method": method, "utc_twin": utc_twin, "k1": list(k1), "k2": list(k2) if k2 is not None else None, "assets": assets, "sheets": sheets, "schedule": [(1970, method)], "from": window[0], "to": window[1],
            "country": country, "lang": "en" if country == "us" else "en_IE", "reports": [f"tax_report_{country}"], "allow_negative": True}


def check(case: Dict[str, Any], res: Dict[str, Any]) -> Tuple[List[str], Dict[str, int]]:
    from rp2verif import fullreport as FR
    from rp2verif import odsread as O

    problems: List[str] = []
    counts = {"fractions": 0, "sheets": 0}
    country = case["country"]
    f = next((n for n in res["files"] if n.endswith(f"tax_report_{country}.ods")), None)
    if f is None:
        return [f"no tax_report_{country}.ods written (files {list(res['files'])})"], counts
    files = res["files"][f]
    fmt = DATE_FMT[country]
    want: Dict[str, List[Dict[str, Any]]] = {}
    for asset in sorted(res["dumps"]):
        for w in res["dumps"][asset]["detail"]:
            sheet = SHEET_OF[w["type"].upper()]
            want.setdefault(sheet, []).append(dict(w, asset=asset))
    # which taxable events the window holds, from the input rows alone (own calendar date within [from, to], both inclusive)
    from rp2verif.models.lots import parse_ts

    fd, td = case["from"], case["to"]
    for asset, specs in sorted(case["assets"].items()):
        in_window = sorted(s["unique_id"] for s in specs
                           if (s["table"] == "out" or (s["table"] == "in" and s["transaction_type"].upper() in EARN_TYPES) or (s["table"] == "intra" and s["crypto_sent"] != s["crypto_received"]))
                           and (fd is None or parse_ts(s["timestamp"]).date() >= fd) and (td is None or parse_ts(s["timestamp"]).date() <= td))
        computed = sorted({w["event_uid"] for w in res["dumps"][asset]["detail"]})
        if computed != in_window:
            problems.append(f"{asset}: fractions of events {computed} are in the computed window, taxable events dated inside the window are {in_window}")
    got_sheets = [n for n in files if n != "Legend"]
    if sorted(got_sheets) != sorted(want):
        problems.append(f"sheets {sorted(got_sheets)} != sheets with at least one fraction of their type {sorted(want)}")
    for sheet, exp in want.items():
        rows = files.get(sheet)
        if rows is None:
            continue
        counts["sheets"] += 1
        listed = []
        i = 7
        while i < len(rows) and not O.is_blank(O.cell(rows, i, 1)):
            listed.append(i)
            i += 1
        # anything below the first blank row would be a row "lost" to the reader: make sure nothing is there
        stray = [j for j in range(i, len(rows)) if not O.is_blank(O.cell(rows, j, 1)) or not O.is_blank(O.cell(rows, j, 0))]
        if stray:
            problems.append(f"sheet '{sheet}': data below a blank row at sheet rows {[j + 1 for j in stray][:5]}")
        if len(listed) != len(exp):
            problems.append(f"sheet '{sheet}': {len(listed)} rows, {len(exp)} fractions of its type(s) in the window")
        # match rows to fractions as multisets keyed by (asset, event id, lot id)
        def key_of_row(i: int) -> Tuple[Any, ...]:
            return (O.cell(rows, i, 1), O.cell(rows, i, 13), O.cell(rows, i, 11) or None)

        remaining = list(listed)
        for w in exp:
            counts["fractions"] += 1
            k = (w["asset"], w["event_uid"], w["lot_uid"])
            hits = [i for i in remaining if key_of_row(i) == k]
            tag = f"sheet '{sheet}', fraction of {w['asset']} event {w['event_uid']} lot {w['lot_uid']}"
            if not hits:
                problems.append(f"{tag}: no row (rows present: {[key_of_row(i) for i in listed]})")
                continue
            i = hits[0]
            remaining.remove(i)
            for col, key in ((0, "amount"), (4, "proceeds"), (8, "gain")):
                if not O.close(O.cell(rows, i, col), w[key]):
                    problems.append(f"{tag}: {key} {O.cell(rows, i, col)!r} != computed {float(w[key])}")
            if O.cell(rows, i, 3) != w["event_ts"].strftime(fmt):
                problems.append(f"{tag}: date sold / earned {O.cell(rows, i, 3)!r} != {w['event_ts'].strftime(fmt)}")
            if w["lot"] is not None:
                if not O.close(O.cell(rows, i, 5), w["cost"]):
                    problems.append(f"{tag}: cost basis {O.cell(rows, i, 5)!r} != computed {float(w['cost'])}")
                if O.cell(rows, i, 2) != w["lot_ts"].strftime(fmt):
                    problems.append(f"{tag}: date acquired {O.cell(rows, i, 2)!r} != {w['lot_ts'].strftime(fmt)}")
                note = O.cell(rows, i, 10)
                if not isinstance(note, str) or not note.startswith(f"{w['lot_k']}/{w['lot_n']}: "):
                    problems.append(f"{tag}: lot fraction label {note!r} does not start with {w['lot_k']}/{w['lot_n']}")
            else:
                for col in (2, 5, 10, 11):
                    if not O.is_blank(O.cell(rows, i, col)):
                        problems.append(f"{tag}: income row shows {O.cell(rows, i, col)!r} in lot column {col}")
            want_type = f"{w['event_table']} / {w['type'].upper()}"
            if O.cell(rows, i, 9) != want_type:
                problems.append(f"{tag}: transaction type {O.cell(rows, i, 9)!r} != {want_type!r}")
            note = O.cell(rows, i, 12)
            if not isinstance(note, str) or not note.startswith(f"{w['event_k']}/{w['event_n']}: "):
                problems.append(f"{tag}: event fraction label {note!r} does not start with {w['event_k']}/{w['event_n']}")
            if O.cell(rows, i, 14) != ("LONG" if w["long"] else "SHORT"):
                problems.append(f"{tag}: {O.cell(rows, i, 14)!r} != {'LONG' if w['long'] else 'SHORT'}")
        for i in remaining:
            problems.append(f"sheet '{sheet}' row {i + 1}: {key_of_row(i)} is not a fraction of the window (or appears twice)")
    FR.check_legend(files.get("Legend"), {"names": {}}, case, problems, f"tax_report_{country}")
    return problems, counts


def D_jsonable(case: Dict[str, Any]) -> Dict[str, Any]:
    from rp2verif import frdriver as D

    return D.jsonable(case)


def judge(st: Stats, case: Dict[str, Any]) -> None:
    from rp2verif.seams import generator as G

    st.inc("evaluations")
    res = G.run(case)
    payload = {"full_case": True, "case": D_jsonable(case)} if case.get("bundled") else {"case": {"k1": case["k1"], "k2": case["k2"], "from": str(case["from"]) if case["from"] else None, "to": str(case["to"]) if case["to"] else None,
                        "country": case["country"], "zones": case.get("zones", False), "method": case.get("method", "fifo"), "utc_twin": case.get("utc_twin", False)}}
    tag = case["label"]
    if res["error"]:
        st.violation(dict(payload, signature=f"C14 no report: {res['stage']} / {res['error'].split(':')[0]}", what=f"{tag} :: {res['stage']}: {res['error'][:200]}"))
        return
    problems, counts = check(case, res)
    for k, v in counts.items():
        st.inc(k, v)
    if case.get("k2") is not None or case.get("bundled"):
        st.inc("distinct_nontrivial")
    if problems:
        first = problems[0]
        kind = "sheet set" if first.startswith("sheets ") else ("row count" if " rows, " in first else first.split(":")[1].strip().split(" ")[0] if ":" in first else "row")
        st.violation(dict(payload, signature=f"C14 {kind}", what=f"{tag} :: {first}", problems=problems[:6]))
    else:
        st.sample({"case": tag, **counts}, cap=1)


def cases(tier: str) -> List[Dict[str, Any]]:
    out = []
    for country in ("us", "ie"):
        for w in WINDOWS:
            for k in KINDS:
                out.append(build_case([k], None, w, country))
            out.append(build_case(list(KINDS), None, w, country))
            out.append(build_case(list(KINDS), list(reversed(KINDS)), w, country))
            out.append(build_case(list(KINDS), list(reversed(KINDS)), w, country, zones=True))
            out.append(build_case(list(KINDS), list(KINDS), w, country, zones=True, utc_twin=True))
            out.append(build_case(list(KINDS[:5]), list(KINDS[:5]), w, country, zones=True, utc_twin=True))
            for k in KINDS:
                out.append(build_case([k], [KINDS[(KINDS.index(k) + 5) % len(KINDS)]], w, country, zones=True))
            # the other methods pair every disposal with the lots in another order (the two covering lots differ in age and price)
            for m in ("lifo", "hifo", "lofo") if country == "us" else ():  # rp2_ie accepts fifo only
                out.append(build_case(list(KINDS), list(reversed(KINDS)), w, country, method=m))
            for k1 in KINDS:
                for k2 in KINDS:
                    out.append(build_case([k1], [k2], w, country))
            # two kinds on ONE asset (the second six months later: separated by the window bounds)
            pairs = [(a, b) for a in KINDS for b in KINDS if a != b]
            if tier == "quick":
                pairs = [p for i, p in enumerate(pairs) if i % 4 == WINDOWS.index(w)]
            for a, b in pairs:
                out.append(build_case([a, b], None, w, country))
    # the data of the 9 inputs bundled with RP2 (all their asset sheets in one run)
    from rp2verif import frdriver as D

    out += D.bundled_cases(["tax_report_us"], methods=("fifo", "hifo") if tier == "quick" else ("fifo", "lifo", "hifo", "lofo"))
    out += D.bundled_cases(["tax_report_ie"], methods=("fifo",), country="ie", lang="en_IE")
    if tier == "thorough":
        for country in ("us", "ie"):
            for k1 in KINDS:
                for k2 in KINDS:
                    for k3 in KINDS[::2]:
                        out.append(build_case([k1, k3], [k2], (None, None), country))
    return out


def worker(chunk: List[Dict[str, Any]]) -> Stats:
    st = Stats()
    for c in chunk:
        judge(st, c)
    return st


def init() -> None:
    from rp2verif.props import c13

    c13.init()


def main(tier: str, budget_s: Optional[float] = None) -> int:
    t0 = time.time()
    deadline = t0 + (budget_s or (270 if tier == "quick" else 3300))
    all_cases = cases(tier)
    n = max(1, min(len(all_cases), common.NPROC * 8))
    chunks = [all_cases[i::n] for i in range(n)]
    results, done = common.pmap(worker, chunks, deadline=deadline, init=init)
    total = Stats()
    for r in results:
        if r is not None:
            total.merge(r)
    complete = done == len(chunks)
    new, matched = common.report(PROP, total.violations)
    coverage = {
        "evaluations": total.get("evaluations"),
        "distinct_nontrivial": total.get("distinct_nontrivial"),
        "cases_planned": len(all_cases),
        "fractions_located": total.get("fractions"),
        "sheets_read": total.get("sheets"),
        "rule": (
            "US and IE plugins x window (none / from 2021-01-01 / to 2020-12-31 / the single day of B1's first event) x { every single kind; every ordered pair (k1 on asset B1, k2 on asset B2) of "
            "the 14 taxable kinds; pairs of kinds on one asset six months apart (quick: a third of them per window); all 14 kinds on one and on both assets }; "
            "each disposal spans a lot older and a lot younger than one year; a variant writes timestamps at 23:30-05:00 / 00:30+09:00 / 22:00-04:00 (own date != UTC date). One evaluation = one real generator run read back; non-trivial = two assets"
        ),
        "kinds": list(KINDS),
        "exhaustive": bool(complete),
        "violations_total": total.get("violations_total"),
        "known_finding_hits": matched,
        "samples": total.samples[:5],
    }
    common.write_evidence(PROP, tier, LEVEL, coverage, time.time() - t0, new, assumptions=[
        "rows are matched to fractions by (asset, taxable event unique id, lot unique id); the type -> sheet table is written independently in the check",
    ])
    print(f"{PROP} {tier}: evaluations={total.get('evaluations')} of {len(all_cases)} fractions={total.get('fractions')} violations={total.get('violations_total')} "
          f"(unlisted {new}) exhaustive={complete} wall={time.time() - t0:.1f}s")
    return 1 if new else 0


def replay(path: str) -> int:
    import json
    import multiprocessing as mp

    with open(path, encoding="utf-8") as f:
        p = json.load(f)
    c = p["case"]
    if p.get("full_case"):
        from rp2verif import frdriver as D

        case = D.from_json(c)
    else:
        case = build_case(c["k1"], c["k2"], (date.fromisoformat(c["from"]) if c["from"] else None, date.fromisoformat(c["to"]) if c["to"] else None), c["country"], c.get("zones", False),
                          c.get("method", "fifo"), c.get("utc_twin", False))
    ctx = mp.get_context("fork")
    with ctx.Pool(1, initializer=init) as pool:
        st = pool.apply(worker, ([case],))
    if st.violations:
        print(f"VIOLATION property={PROP} replay={path}\n  {st.violations[0]['what']}")
        return 1
    print(f"replay: {path}: property {PROP} holds on this case")
    return 0
