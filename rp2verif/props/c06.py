"""C06 - the yearly gain/loss summary equals the sum of its detail fractions.

Multi-year prefix tree (steps +1d, +200d, +365d so that sales mix long and short fractions and straddle years) x
methods x every to-date of interest (and from-dates): the yearly list is regrouped from the detail fractions in Q.
"""
from __future__ import annotations

import time
from datetime import date, timedelta
from fractions import Fraction
from typing import Any, Dict, List, Optional, Sequence, Set, Tuple

from rp2verif import common
from rp2verif import history as H
from rp2verif.common import Stats
from rp2verif.lotrun import run_phases, sched_str
from rp2verif.lottree import History, Tree
from rp2verif.models.lots import parse_ts

PROP = "C06"
LEVEL = "exploration"

SYMBOLS = [
    H.B(1, 2), H.B(2, 1), H.E(1, 1, "INTEREST"), H.E(1, 1, "MINING"),
    H.S(1), H.S(2), H.S(1, typ="GIFT"), H.S(1, typ="FEE"),
]
FIRST = [s for s in SYMBOLS if s[0] in ("B", "E")]
EXTRA = None
STEPS = ("d", "200d", "y")  # y = 365 days: a lot held exactly the US threshold


def dates_of_interest(specs: Sequence[Dict[str, Any]]) -> Tuple[List[Optional[date]], List[Optional[date]]]:
    ev = sorted({parse_ts(s["timestamp"]).date() for s in specs})
    years = sorted({d.year for d in ev})
    tos: Set[Optional[date]] = {None}
    froms: Set[Optional[date]] = set()
    for d in ev:
        tos.add(d)
        tos.add(d - timedelta(days=1))
        froms.add(d)
    for y in years:
        tos.add(date(y, 12, 31))
        froms.add(date(y, 1, 1))
        froms.add(date(y, 7, 1))
    return sorted(tos, key=lambda d: d or date.max), sorted(froms, key=lambda d: d or date.min)


def regroup(rows: Sequence[Dict[str, Any]], to_date: Optional[date]) -> Dict[Tuple[int, str, str, bool], Tuple[Fraction, ...]]:
    out: Dict[Tuple[int, str, str, bool], List[Fraction]] = {}
    for r in rows:
        if to_date is not None and r["event_ts"].date() > to_date:
            continue
        key = (r["event_ts"].year, "B1", r["type"], r["long"])
        acc = out.setdefault(key, [Fraction(0)] * 4)
        acc[0] += r["amount"]
        acc[1] += r["proceeds"]
        acc[2] += r["cost"]
        acc[3] += r["gain"]
    return {k: tuple(v) for k, v in out.items()}


# RP2 adds the fractions up in decimal arithmetic with 28 significant digits: each addition may round in the 28th digit, while the sums below are
# exact rationals. Two figures are "equal" when they differ by less than 1e-20 of the larger magnitude in the line (eight digits of slack for the
# rounding, still five digits finer than the 1e-15 the properties ask for); on the integer-valued histories of the tree this is exact equality.
SUM_TOL = Fraction(1, 10**20)


def same(a: Fraction, b: Fraction, scale: Fraction) -> bool:
    return a == b or abs(a - b) <= SUM_TOL * max(scale, Fraction(1))


def compare(got: Dict[Any, Any], want: Dict[Any, Any]) -> Optional[str]:
    for k in want:
        if k not in got:
            return f"no summary line for {k} although {want[k][0]} units of fractions have that key"
    for k in got:
        if k not in want:
            return f"summary line {k} has no detail fraction"
    for k in want:
        scale = max(abs(x) for x in want[k])
        if any(not same(got[k][i], want[k][i], scale) for i in range(4)):
            names = ("crypto amount", "proceeds", "cost basis", "gain")
            i = next(i for i in range(4) if not same(got[k][i], want[k][i], scale))
            return f"summary line {k}: {names[i]} {got[k][i]} != sum of its fractions {want[k][i]}"
    return None


def variants_of(hist: History, dev: Any, row_order: str) -> List[Tuple[History, Optional[List[Dict[str, Any]]]]]:
    from datetime import datetime, timezone

    if dev == "tz":
        # every timestamp at -05:00, starting 21:30 on Dec 31 local time (= 02:30 on Jan 1 UTC): after every +1y step an event's own
        # year differs from its UTC year
        h2 = tuple((it[0], it[1], -300) for it in hist)
        return [(h2, H.materialize(h2, row_order=row_order, base=datetime(2021, 1, 1, 2, 30, 0, tzinfo=timezone.utc)))]
    if dev == "supplied":
        # exchange-supplied fiat columns that do not add up (a fee rebate: with-fee = no-fee + half of the fee): RP2 takes them verbatim; the summary
        # and the detail must still be computed from the SAME figures
        specs = H.materialize(hist, row_order=row_order)
        if specs is None:
            return [(hist, None)]
        out_specs = []
        for sp in specs:
            if sp["table"] == "in":
                no_fee = Fraction(sp["crypto_in"]) * Fraction(sp["spot_price"])
                sp = dict(sp, fiat_in_no_fee=H.dec(no_fee), fiat_fee="1", fiat_in_with_fee=H.dec(no_fee + Fraction(1, 2)))
            out_specs.append(sp)
        return [(hist, out_specs)]
    if dev == "mixed":
        # instants at 20:00, 22:00, 00:00, 02:00 UTC around midnight of Dec 30/31 and of Dec 31/Jan 1, one transaction (every position)
        # written at +09:00 / -05:00: own calendar dates are NOT monotonic along the order of the instants (20:00Z at +09:00 is already
        # tomorrow, the 22:00Z that follows is still today; 02:00Z at -05:00 is still yesterday), and to-dates cut by own date
        out = []
        for day in (30, 31):
            for i in range(len(hist)):
                for tz in (540, -300):
                    h2 = tuple((it[0], "2h", tz if j == i else 0) for j, it in enumerate(hist))
                    out.append((h2, H.materialize(h2, row_order=row_order, base=datetime(2020, 12, day, 18, 0, 0, tzinfo=timezone.utc))))
        return out
    return [(hist, H.materialize(hist, row_order=row_order))]


def worker(task: Tuple[Any, ...]) -> Stats:
    from rp2verif.seams import compute as C

    root, depth, schedules, steps, _dev, row_order = task[:6]
    tree = Tree(FIRST, SYMBOLS, steps, EXTRA)
    st = Stats()
    for hist0 in tree.level(root, depth):
      for hist, specs in variants_of(hist0, _dev, row_order):
        if specs is not None:
            judge_history(st, hist, specs, schedules, _dev)
    return st


def bundled_worker(chunk: List[Tuple[str, str]]) -> Stats:
    """The inputs bundled with RP2, per asset sheet: every to-date / from-date of interest, summary vs detail."""
    from rp2verif import bundled

    st = Stats()
    data = bundled.load()
    for fname, asset in chunk:
        own = bundled.schedule_of(fname)
        schedules = [((1970, m),) for m in ("fifo", "lifo", "hifo", "lofo")] + ([tuple((int(y), m) for y, m in own)] if own else [])
        st.inc("bundled_sheets")
        judge_history(st, (), data[fname][asset], schedules, 0, name=f"bundled input {fname}.ods, asset {asset}")
    return st


def judge_history(st: Stats, hist: Any, specs: List[Dict[str, Any]], schedules: Sequence[Any], _dev: Any, name: Optional[str] = None) -> None:
    from rp2verif.seams import compute as C

    hs = name or H.hist_str(hist)
    if True:
        tos, froms = dates_of_interest(specs)
        for sch in schedules:
            st.inc("histories")
            base = {"history": hs, "hist": hist, "specs": specs, "schedule": list(sch)}
            full = C.run_window(specs, sch)
            if not full.ok:
                st.inc("evaluations")
                st.violation(dict(base, signature=f"C06 valid history rejected / {type(full.error).__name__}",
                                  what=f"{sched_str(sch)}: {hs} :: {type(full.error).__name__}: {full.error}"))
                continue
            all_rows = C.detail(full.computed)
            windows: List[Tuple[Optional[date], Optional[date]]] = [(None, t) for t in tos] + [(f, None) for f in froms]
            if tos and froms:
                # a few from+to pairs: from = first day of each touched year, to = each year end
                windows += [(f, t) for f in froms for t in tos if f and t and f <= t and f.month == 1 and f.day == 1 and t.month == 12]
            keys_seen = set()
            if _dev == "mixed":
                windows = [w for w in windows if w[0] is None]  # to-dates only (see below)
            for fd, td in windows:
                st.inc("evaluations")
                st.inc(f"evaluations_depth_{len(hist)}")
                out = full if (fd is None and td is None) else C.run_window(specs, sch, fd, td)
                wb = dict(base, from_date=str(fd) if fd else None, to_date=str(td) if td else None)
                if not out.ok:
                    st.violation(dict(wb, signature=f"C06 valid window rejected / {type(out.error).__name__}",
                                      what=f"{sched_str(sch)} -f {fd} -t {td}: {hs} :: {type(out.error).__name__}: {out.error}"))
                    continue
                lines, dups = C.yearly_lines(out.computed)
                if _dev == "mixed":
                    # own calendar dates are not monotonic along the instants here, and which fractions a to-date keeps in that case is
                    # not fixed by the property; what it does fix is that the summary equals the sum of the detail fractions OF THE SAME RUN
                    want = regroup(C.detail(out.computed), None)
                else:
                    want = regroup(all_rows, td)
                if fd is not None:
                    want = {k: v for k, v in want.items() if k[0] >= fd.year}
                problem = None
                if dups:
                    problem = f"summary key {dups[0]} listed more than once"
                else:
                    problem = compare(lines, want)
                if problem is None and fd is None:
                    # in-run consistency: grand totals of the summary equal the totals of this run's own detail table
                    own = C.detail(out.computed)
                    for i, name in enumerate(("crypto amount", "proceeds", "cost basis", "gain")):
                        tot_lines = sum((v[i] for v in lines.values()), Fraction(0))
                        tot_rows = sum((r[("amount", "proceeds", "cost", "gain")[i]] for r in own), Fraction(0))
                        if not same(tot_lines, tot_rows, max((abs(r[f]) for r in own for f in ("amount", "proceeds", "cost")), default=Fraction(1)) * max(len(own), 1)):
                            problem = f"grand total {name} of the summary {tot_lines} != total of the detail table {tot_rows}"
                            break
                keys_seen |= set(want)
                if problem:
                    st.violation(dict(wb, signature=f"C06 summary / {problem.split(' (')[0].split(':')[0][:40]}",
                                      what=f"{sched_str(sch)} -f {fd} -t {td}: {hs} :: {problem}"))
            multi = len({k[0] for k in keys_seen}) >= 2 or any(k[3] for k in keys_seen)
            if multi:
                st.inc("distinct_nontrivial")
                st.sample({"history": hs, "schedule": sched_str(sch), "windows": len(windows),
                           "summary keys over all windows": sorted(str(k) for k in keys_seen)}, cap=1)


def plan(tier: str) -> List[Dict[str, Any]]:
    sch = [((1970, m),) for m in ("fifo", "lifo", "hifo")]
    if tier == "quick":
        return [
            {"name": "multi-year tree, 3 methods", "schedules": sch, "steps": STEPS, "depth": 3, "dev": 0, "group": 1},
            {"name": "multi-year tree, depth 4, hifo", "schedules": [((1970, "hifo"),)], "steps": STEPS, "depth": 4, "dev": 0, "group": 1, "from_depth": 4},
            {"name": "timestamps at -05:00 on New Year's Eve (own year != UTC year)", "schedules": [((1970, "fifo"),)], "steps": STEPS, "depth": 3, "dev": "tz", "group": 1},
            {"name": "2-hour steps across midnight, one transaction in another UTC offset (own dates not monotonic)", "schedules": [((1970, "fifo"),)], "steps": ("d",), "depth": 3, "dev": "mixed", "group": 1},
            {"name": "exchange-supplied fiat columns that do not add up (with-fee != no-fee + fee)", "schedules": [((1970, "fifo"),), ((1970, "hifo"),)], "steps": STEPS, "depth": 3, "dev": "supplied", "group": 1},
        ]
    return [
        {"name": "multi-year tree, 4 methods", "schedules": sch + [((1970, "lofo"),)], "steps": STEPS, "depth": 4, "dev": 0, "group": 1},
        {"name": "sheet order reversed", "schedules": sch, "steps": STEPS, "depth": 3, "dev": 0, "group": 1, "row_order": "reverse"},
        {"name": "timestamps at -05:00 on New Year's Eve (own year != UTC year)", "schedules": sch, "steps": STEPS, "depth": 3, "dev": "tz", "group": 1},
        {"name": "2-hour steps across midnight, one transaction in another UTC offset (own dates not monotonic)", "schedules": sch, "steps": ("d",), "depth": 4, "dev": "mixed", "group": 1},
        {"name": "exchange-supplied fiat columns that do not add up (with-fee != no-fee + fee)", "schedules": sch, "steps": STEPS, "depth": 4, "dev": "supplied", "group": 1},
        {"name": "multi-year tree, depth 5, fifo+hifo", "schedules": [((1970, "fifo"),), ((1970, "hifo"),)], "steps": STEPS, "depth": 5, "dev": 0, "group": 1, "from_depth": 5},
    ]


def main(tier: str, budget_s: Optional[float] = None) -> int:
    t0 = time.time()
    deadline = t0 + (budget_s or (240 if tier == "quick" else 3000))
    total, info, complete = run_phases(plan(tier), worker, FIRST, SYMBOLS, EXTRA, deadline, by_depth=True)
    from rp2verif import bundled as _B

    bt = _B.sheets()
    tb = time.time()
    bres, bdone = common.pmap(bundled_worker, [[x] for x in bt], deadline=max(deadline, time.time() + 90))
    for r in bres:
        if r is not None:
            total.merge(r)
    complete = complete and bdone == len(bt)
    info.append({"phase": "inputs bundled with RP2: every to-/from-date of interest per asset sheet of the 9 files x 4 methods (+ the file's own schedule)", "asset_sheets": len(bt),
                 "executions": total.get("bundled_sheets"), "wall_s": round(time.time() - tb, 1)})
    new, matched = common.report(PROP, total.violations)
    coverage = {
        "evaluations": total.get("evaluations"),
        "distinct_nontrivial": total.get("distinct_nontrivial"),
        "histories_x_methods": total.get("histories"),
        "rule": (
            "every node of the multi-year prefix tree x method is run unfiltered and once per window of interest (every to-date on / the day "
            "before each transaction and each Jan 1 / Dec 31, every from-date, year-aligned from+to pairs); evaluations = (history, method, "
            "window) triples, distinct by construction; non-trivial histories = summary keys span >= 2 years or include a long-term line"
        ),
        "alphabet": [H.sym_str(s) for s in SYMBOLS],
        "steps": list(STEPS),
        "phases": info,
        "per_depth": {k: v for k, v in sorted(total.counters.items()) if k.startswith("evaluations_depth_")},
        "exhaustive": bool(complete),
        "violations_total": total.get("violations_total"),
        "known_finding_hits": matched,
        "samples": total.samples[:5],
    }
    common.write_evidence(PROP, tier, LEVEL, coverage, time.time() - t0, new, assumptions=[
        "one UTC offset per run (UTC, or -05:00 on New Year's Eve so that own year != UTC year); in the mixed-offset phase the summary is compared with the detail table of the same run; the long/short flag of a fraction is taken from RP2 (C05 decides its correctness)",
    ])
    print(f"{PROP} {tier}: evaluations={total.get('evaluations')} histories={total.get('histories')} nontrivial={total.get('distinct_nontrivial')} "
          f"violations={total.get('violations_total')} (unlisted {new}) exhaustive={complete} wall={time.time() - t0:.1f}s")
    for i in info:
        print("  ", i)
    return 1 if new else 0


def replay(path: str) -> int:
    import json
    from datetime import date as _date

    from rp2verif.seams import compute as C

    with open(path, encoding="utf-8") as f:
        p = json.load(f)
    sch = [tuple(x) for x in p["schedule"]]
    fd = _date.fromisoformat(p["from_date"]) if p.get("from_date") else None
    td = _date.fromisoformat(p["to_date"]) if p.get("to_date") else None
    full = C.run_window(p["specs"], sch)
    out = C.run_window(p["specs"], sch, fd, td)
    if not full.ok or not out.ok:
        print(f"VIOLATION property={PROP} replay={path}\n  run failed: {full.error or out.error}")
        return 1
    lines, dups = C.yearly_lines(out.computed)
    want = regroup(C.detail(full.computed), td)
    if fd is not None:
        want = {k: v for k, v in want.items() if k[0] >= fd.year}
    problem = f"duplicate key {dups[0]}" if dups else compare(lines, want)
    if problem:
        print(f"VIOLATION property={PROP} replay={path}\n  {problem}")
        return 1
    print(f"replay: {path}: property {PROP} holds on this case")
    return 0
