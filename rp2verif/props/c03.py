"""C03 - exactly the taxable transactions are taxed, each once and in full.

All sequences over the 20 (table, type) symbols after a covering purchase; an independent taxability table in this
file decides what must appear in taxable_event_set / gain_loss_set.
"""
from __future__ import annotations

import time
from fractions import Fraction
from typing import Any, Dict, List, Optional, Sequence, Tuple

from rp2verif import common
from rp2verif import history as H
from rp2verif.common import Stats
from rp2verif.lotrun import generic_worker, run_phases, sched_str
from rp2verif.lottree import History
from rp2verif.models.lots import F

PROP = "C03"
LEVEL = "exploration"

# independent table (not derived from rp2): which IN types are income
EARN = ("AIRDROP", "HARDFORK", "INCOME", "INTEREST", "MINING", "STAKING", "WAGES")
NON_EARN_IN = ("BUY", "DONATE", "GIFT")
OUT = ("DONATE", "FEE", "GIFT", "LOST", "SELL", "STAKING")

FIRST = [H.B(1, 30)]
SYMBOLS = (
    [H.E(3, 1, typ=t) for t in EARN]
    + [H.B(3, 1, typ=t) for t in NON_EARN_IN]
    + [H.S(1, typ=t, price=5) for t in OUT]
    + [H.S(1, fee=1, typ="SELL", price=5)]
    + [H.M(2, 1, price=7), H.M(2, 0, price=7)]
    + [H.M(2, 1, src=0, dst=0, price=7)]  # a fee-bearing transfer from an account to itself is still a disposal of the fee
)
EXTRA = None


def deviations(hist: History, max_dev: int) -> List[Tuple[History, Dict[str, Any], str]]:
    """One '=' step instead of '+1d' at one position (equal timestamps across tables)."""
    out = []
    # every amount x 1/1000 and every price x 1/1000: taxable events worth a fraction of a cent are taxable events all the same
    out.append((hist, {"scale": "1/1000"}, "amounts x 1/1000"))
    out.append((hist, {"scale": "1/1000", "price_scale": "1/1000"}, "amounts and prices x 1/1000"))
    for i in range(1, len(hist)):
        items = list(hist)
        items[i] = (items[i][0], "=")
        out.append((tuple(items), {"scale": 1}, f"same-instant@{i}"))
    if max_dev >= 2:
        for i in range(1, len(hist)):
            for j in range(i + 1, len(hist)):
                items = list(hist)
                items[i] = (items[i][0], "=")
                items[j] = (items[j][0], "=")
                out.append((tuple(items), {"scale": 1}, f"same-instant@{i},{j}"))
    return out


def expected(specs: Sequence[Dict[str, Any]]) -> Dict[int, Dict[str, Any]]:
    """row -> what the taxable event must look like, from the independent table."""
    exp: Dict[int, Dict[str, Any]] = {}
    for s in specs:
        if s["table"] == "in":
            t = s["transaction_type"].upper()
            if t in EARN:
                amount = F(s["crypto_in"])
                exp[s["row"]] = {"kind": "earn", "type": t, "amount": amount, "fiat": amount * F(s["spot_price"])}
        elif s["table"] == "out":
            t = s["transaction_type"].upper()
            amount = F(s["crypto_out_no_fee"]) + F(s.get("crypto_fee") or 0)
            exp[s["row"]] = {"kind": "out", "type": t, "amount": amount}
        else:
            fee = F(s["crypto_sent"]) - F(s["crypto_received"])
            if fee != 0:
                exp[s["row"]] = {"kind": "intra", "type": "MOVE", "amount": fee}
    return exp


def judge(st: Stats, hist: History, specs: List[Dict[str, Any]], schedule: Sequence[Tuple[int, str]], out: Any, label: str = "") -> None:
    st.inc("evaluations")
    st.inc(f"evaluations_depth_{len(hist)}")
    base = {"history": H.hist_str(hist), "hist": hist, "specs": specs, "schedule": list(schedule), "deviation": label}
    if not out.ok:
        st.violation(dict(base, signature=f"C03 valid history rejected / {type(out.error).__name__}",
                          what=f"{sched_str(schedule)}: {H.hist_str(hist)} :: {type(out.error).__name__}: {out.error}"))
        return
    cd = out.computed
    exp = expected(specs)
    problems: List[str] = []
    got_events: Dict[int, int] = {}
    for t in cd.taxable_event_set:
        got_events[t.row] = got_events.get(t.row, 0) + 1
    for r in exp:
        if got_events.get(r, 0) != 1:
            problems.append(f"taxable row {r} ({exp[r]['type']}) appears {got_events.get(r, 0)} times in the taxable event set")
    for r in got_events:
        if r not in exp:
            sp = next(s for s in specs if s["row"] == r)
            problems.append(f"non-taxable row {r} ({sp['sym']}) reported as a taxable event")
    sums: Dict[int, Fraction] = {}
    counts: Dict[int, int] = {}
    for gl in cd.gain_loss_set:
        r = gl.taxable_event.row
        e = exp.get(r)
        if e is None:
            sp = next(s for s in specs if s["row"] == r)
            problems.append(f"gain/loss entry for non-taxable row {r} ({sp['sym']})")
            continue
        counts[r] = counts.get(r, 0) + 1
        sums[r] = sums.get(r, Fraction(0)) + F(gl.crypto_amount)
        if gl.taxable_event.transaction_type.value.upper() != e["type"]:
            problems.append(f"row {r} of type {e['type']} reported as {gl.taxable_event.transaction_type.value}")
        if e["kind"] == "earn":
            if gl.acquired_lot is not None:
                problems.append(f"earn row {r} has a lot")
            if F(gl.crypto_amount) != e["amount"]:
                problems.append(f"earn row {r}: amount {gl.crypto_amount} != {e['amount']}")
            if F(gl.taxable_event_fiat_amount_with_fee_fraction) != e["fiat"]:
                problems.append(f"earn row {r}: proceeds {gl.taxable_event_fiat_amount_with_fee_fraction} != fiat value {e['fiat']}")
            if F(gl.fiat_cost_basis) != 0:
                problems.append(f"earn row {r}: cost basis {gl.fiat_cost_basis} != 0")
        else:
            if gl.acquired_lot is None:
                problems.append(f"disposal row {r} has no lot")
    for r, e in exp.items():
        if e["kind"] == "earn":
            if counts.get(r, 0) != 1:
                problems.append(f"earn row {r} ({e['type']}) reported {counts.get(r, 0)} times in the gain/loss set")
        elif sums.get(r, Fraction(0)) != e["amount"]:
            problems.append(f"{e['kind']} row {r} ({e['type']}): fractions sum to {sums.get(r, Fraction(0))}, expected {e['amount']}")
    kinds = {s["sym"] for s in specs[1:]}
    if exp and len(kinds) == len(specs) - 1:
        st.inc("distinct_nontrivial")
    if problems:
        st.violation(dict(base, signature=f"C03 taxability / {problems[0].split(' row ')[0]}",
                          what=f"{sched_str(schedule)}: {H.hist_str(hist)} :: {problems[0]}", problems=problems))
    else:
        st.sample({"history": H.hist_str(hist), "schedule": sched_str(schedule),
                   "taxable rows": {r: f"{e['type']} {e['amount']}" for r, e in exp.items()}}, cap=1)


def plan(tier: str) -> List[Dict[str, Any]]:
    sch = [((1970, "fifo"),), ((1970, "hifo"),)]
    if tier == "quick":
        return [
            {"name": "sequences", "schedules": sch, "steps": ("d",), "depth": 5, "dev": 0, "group": 2},
            {"name": "one same-instant step", "schedules": sch, "steps": ("d",), "depth": 4, "dev": 1, "group": 2, "from_depth": 2},
        ]
    return [
        {"name": "sequences", "schedules": sch + [((1970, "lifo"),), ((1970, "lofo"),)], "steps": ("d",), "depth": 5, "dev": 0, "group": 1},
        {"name": "sequences, depth 6", "schedules": sch, "steps": ("d",), "depth": 6, "dev": 0, "group": 1, "from_depth": 6},
        {"name": "one same-instant step", "schedules": sch, "steps": ("d",), "depth": 5, "dev": 1, "group": 1, "from_depth": 2},
        {"name": "two same-instant steps", "schedules": sch, "steps": ("d",), "depth": 5, "dev": 2, "group": 1, "from_depth": 3},
    ]


def main(tier: str, budget_s: Optional[float] = None) -> int:
    t0 = time.time()
    deadline = t0 + (budget_s or (180 if tier == "quick" else 1800))
    total, info, complete = run_phases(plan(tier), generic_worker, FIRST, SYMBOLS, EXTRA, deadline, __name__)
    new, matched = common.report(PROP, total.violations)
    coverage = {
        "evaluations": total.get("evaluations"),
        "distinct_nontrivial": total.get("distinct_nontrivial"),
        "rule": (
            "all sequences over the 20 (table, type) symbols after a covering purchase (depth counts the purchase), one day "
            "apart, plus every placement of one (thorough: two) same-instant steps, x methods; distinct by construction; "
            "non-trivial = contains a taxable row and no symbol twice"
        ),
        "alphabet": [H.sym_str(s) for s in SYMBOLS],
        "phases": info,
        "per_depth": {k: v for k, v in sorted(total.counters.items()) if k.startswith("evaluations_depth_")},
        "exhaustive": bool(complete),
        "violations_total": total.get("violations_total"),
        "known_finding_hits": matched,
        "samples": total.samples[:6],
    }
    common.write_evidence(PROP, tier, LEVEL, coverage, time.time() - t0, new, assumptions=[
        "negative STAKING acquisitions and transfer fees worth < 5e-14 fiat are outside the alphabet (DESIGN.md section 4)",
    ])
    print(f"{PROP} {tier}: evaluations={total.get('evaluations')} nontrivial={total.get('distinct_nontrivial')} violations={total.get('violations_total')} "
          f"(unlisted {new}) exhaustive={complete} wall={time.time() - t0:.1f}s")
    for i in info:
        print("  ", i)
    return 1 if new else 0


def replay(path: str) -> int:
    from rp2verif.lotrun import replay_compute

    return replay_compute(__name__, path)
