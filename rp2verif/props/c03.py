"""C03 - exactly the taxable transactions are taxed, each once and in full.

All sequences over the 21 (table, type) symbols after a covering purchase; an independent taxability table in this
file decides what must appear in taxable_event_set / gain_loss_set.
"""
from __future__ import annotations

import time
from fractions import Fraction
from typing import Any, Dict, List, Optional, Sequence, Tuple

from rp2verif import common
from rp2verif import history as H
from rp2verif.common import Stats
from rp2verif.lotrun import generic_worker, run_phases, sched_str
from rp2verif.lottree import History
from rp2verif.models.lots import F

PROP = "C03"
LEVEL = "exploration"

# independent table (not derived from rp2): which IN types are income
EARN = ("AIRDROP", "HARDFORK", "INCOME", "INTEREST", "MINING", "STAKING", "WAGES")
NON_EARN_IN = ("BUY", "DONATE", "GIFT")
OUT = ("DONATE", "FEE", "GIFT", "LOST", "SELL", "STAKING")

FIRST = [H.B(1, 30)]
SYMBOLS = (
    [H.E(3, 1, typ=t) for t in EARN]
    + [H.B(3, 1, typ=t) for t in NON_EARN_IN]
    + [H.S(1, typ=t, price=5) for t in OUT]
    + [H.S(1, fee=1, typ="SELL", price=5)]
    + [H.S(1, typ="FEE", price=0)]  # a fee paid in a coin quoted at 0 (accepted for fee-typed rows): worth nothing, a disposal all the same
    + [H.M(2, 1, price=7), H.M(2, 0, price=7)]
    + [H.M(2, 1, src=0, dst=0, price=7)]  # a fee-bearing transfer from an account to itself is still a disposal of the fee
)
EXTRA = None


def deviations(hist: History, max_dev: int) -> List[Tuple[History, Dict[str, Any], str]]:
    """One '=' step instead of '+1d' at one position (equal timestamps across tables)."""
    out = []
    # every amount x 1/1000 and every price x 1/1000: taxable events worth a fraction of a cent are taxable events all the same
    out.append((hist, {"scale": "1/1000"}, "amounts x 1/1000"))
    out.append((hist, {"scale": "1/1000", "price_scale": "1/1000"}, "amounts and prices x 1/1000"))
    for i in range(1, len(hist)):
        items = list(hist)
        items[i] = (items[i][0], "=")
        out.append((tuple(items), {"scale": 1}, f"same-instant@{i}"))
    # every timestamp late in the evening at -05:00 (the UTC date is the next day) / early in the morning at +09:00 (the UTC date is the day before),
    # and a date window from the first to the last OWN date: it contains every transaction, so every taxable row must still be reported
    from datetime import datetime, timezone

    for tz, hour in ((-300, 1), (540, 18)):
        out.append((tuple((it[0], it[1], tz) for it in hist), {"scale": 1, "own_window": True, "base": datetime(2020, 3, 1, hour, 30, 0, tzinfo=timezone.utc)},
                    f"timestamps at UTC{tz // 60:+d}h, date window = first to last own date"))
    if max_dev >= 2:
        for i in range(1, len(hist)):
            for j in range(i + 1, len(hist)):
                items = list(hist)
                items[i] = (items[i][0], "=")
                items[j] = (items[j][0], "=")
                out.append((tuple(items), {"scale": 1}, f"same-instant@{i},{j}"))
    return out


def expected(specs: Sequence[Dict[str, Any]]) -> Dict[int, Dict[str, Any]]:
    """row -> what the taxable event must look like, from the independent table."""
    exp: Dict[int, Dict[str, Any]] = {}
    for s in specs:
        if s["table"] == "in":
            t = s["transaction_type"].upper()
            if t in EARN:
                amount = F(s["crypto_in"])
                exp[s["row"]] = {"kind": "earn", "type": t, "amount": amount, "fiat": amount * F(s["spot_price"])}
        elif s["table"] == "out":
            t = s["transaction_type"].upper()
            amount = F(s["crypto_out_no_fee"]) + F(s.get("crypto_fee") or 0)
            exp[s["row"]] = {"kind": "out", "type": t, "amount": amount}
        else:
            fee = F(s["crypto_sent"]) - F(s["crypto_received"])
            if fee != 0:
                exp[s["row"]] = {"kind": "intra", "type": "MOVE", "amount": fee}
    return exp


def judge(st: Stats, hist: History, specs: List[Dict[str, Any]], schedule: Sequence[Tuple[int, str]], out: Any, label: str = "") -> None:
    st.inc("evaluations")
    st.inc(f"evaluations_depth_{len(hist)}")
    base = {"history": H.hist_str(hist), "hist": hist, "specs": specs, "schedule": list(schedule), "deviation": label}
    if not out.ok:
        st.violation(dict(base, signature=f"C03 valid history rejected / {type(out.error).__name__}",
                          what=f"{sched_str(schedule)}: {H.hist_str(hist)} :: {type(out.error).__name__}: {out.error}"))
        return
    cd = out.computed
    exp = expected(specs)
    problems: List[str] = []
    got_events: Dict[int, int] = {}
    for t in cd.taxable_event_set:
        got_events[t.row] = got_events.get(t.row, 0) + 1
    for r in exp:
        if got_events.get(r, 0) != 1:
            problems.append(f"taxable row {r} ({exp[r]['type']}) appears {got_events.get(r, 0)} times in the taxable event set")
    for r in got_events:
        if r not in exp:
            sp = next(s for s in specs if s["row"] == r)
            problems.append(f"non-taxable row {r} ({sp['sym']}) reported as a taxable event")
    sums: Dict[int, Fraction] = {}
    counts: Dict[int, int] = {}
    for gl in cd.gain_loss_set:
        r = gl.taxable_event.row
        e = exp.get(r)
        if e is None:
            sp = next(s for s in specs if s["row"] == r)
            problems.append(f"gain/loss entry for non-taxable row {r} ({sp['sym']})")
            continue
        counts[r] = counts.get(r, 0) + 1
        sums[r] = sums.get(r, Fraction(0)) + F(gl.crypto_amount)
        if gl.taxable_event.transaction_type.value.upper() != e["type"]:
            problems.append(f"row {r} of type {e['type']} reported as {gl.taxable_event.transaction_type.value}")
        if e["kind"] == "earn":
            if gl.acquired_lot is not None:
                problems.append(f"earn row {r} has a lot")
            if F(gl.crypto_amount) != e["amount"]:
                problems.append(f"earn row {r}: amount {gl.crypto_amount} != {e['amount']}")
            if F(gl.taxable_event_fiat_amount_with_fee_fraction) != e["fiat"]:
                problems.append(f"earn row {r}: proceeds {gl.taxable_event_fiat_amount_with_fee_fraction} != fiat value {e['fiat']}")
            if F(gl.fiat_cost_basis) != 0:
                problems.append(f"earn row {r}: cost basis {gl.fiat_cost_basis} != 0")
        else:
            if gl.acquired_lot is None:
                problems.append(f"disposal row {r} has no lot")
    for r, e in exp.items():
        if e["kind"] == "earn":
            if counts.get(r, 0) != 1:
                problems.append(f"earn row {r} ({e['type']}) reported {counts.get(r, 0)} times in the gain/loss set")
        elif sums.get(r, Fraction(0)) != e["amount"]:
            problems.append(f"{e['kind']} row {r} ({e['type']}): fractions sum to {sums.get(r, Fraction(0))}, expected {e['amount']}")
    kinds = {s["sym"] for s in specs[1:]}
    if exp and len(kinds) == len(specs) - 1:
        st.inc("distinct_nontrivial")
    if problems:
        st.violation(dict(base, signature=f"C03 taxability / {problems[0].split(' row ')[0]}",
                          what=f"{sched_str(schedule)}: {H.hist_str(hist)} :: {problems[0]}", problems=problems))
    else:
        st.sample({"history": H.hist_str(hist), "schedule": sched_str(schedule),
                   "taxable rows": {r: f"{e['type']} {e['amount']}" for r, e in exp.items()}}, cap=1)


# ---- the same through the whole front end (spreadsheet -> parse_ods -> compute_tax): acquisitions of every IN type that pay their fee in
# crypto. RP2 models such a fee as a fee-typed disposal of the fee amount at the instant of the acquisition (a taxable event with lots).
FE_SYMBOLS = (
    [H.B(3, 1, typ=t, fee="1/4") for t in EARN + NON_EARN_IN]
    + [H.E(3, 1, typ="MINING"), H.S(1, typ="SELL", price=5), H.M(2, 1, price=7), H.M(2, 0, price=7)]
)


def fe_cases(tier: str) -> List[Dict[str, Any]]:
    import itertools

    from rp2verif import frdriver as D

    out = []
    depth = 2 if tier == "quick" else 3
    for n in range(1, depth + 1):
        for seq in itertools.product(FE_SYMBOLS, repeat=n):
            hist = ((FIRST[0], "="),) + tuple((s, "d") for s in seq)
            for row_order in ("chrono", "reverse"):
                specs = H.materialize(hist, row_order=row_order, uid=True)
                if specs is None:
                    continue
                sheet, keyed = D.to_sheet(specs, "B1")
                for m in ("fifo", "hifo"):
                    out.append({"label": f"{m}, rows {row_order}: {H.hist_str(hist)}", "hist": hist, "row_order": row_order, "assets": {"B1": keyed}, "sheets": {"B1": sheet},
                                "schedule": [(1970, m)], "from": None, "to": None, "country": "us", "lang": "en", "reports": [], "allow_negative": False})
    return out


def fe_judge(st: Stats, case: Dict[str, Any]) -> None:
    from rp2verif.seams import generator as G

    st.inc("evaluations")
    st.inc("front_end_evaluations")
    res = G.run(case)
    payload = {"front_end": {"hist": case["hist"], "row_order": case["row_order"], "method": case["schedule"][0][1]}}
    if res["error"]:
        st.violation(dict(payload, signature=f"C03 front end: valid history rejected / {res['error'].split(':')[0]}", what=f"{case['label']} :: {res['stage']}: {res['error'][:200]}"))
        return
    specs = case["assets"]["B1"]
    D = res["dumps"]["B1"]
    # expected multiset of taxable events (table, type, instant, crypto amount), from the input rows and the independent table
    want: List[Tuple[str, str, str, Fraction]] = []
    for s in specs:
        from rp2verif.models.lots import parse_ts

        ts = parse_ts(s["timestamp"]).isoformat()
        if s["table"] == "in":
            t = s["transaction_type"].upper()
            if t in EARN:
                want.append(("IN", t, ts, F(s["crypto_in"])))
            if F(s.get("crypto_fee") or 0) > 0:
                want.append(("OUT", "FEE", ts, F(s["crypto_fee"])))
        elif s["table"] == "out":
            want.append(("OUT", s["transaction_type"].upper(), ts, F(s["crypto_out_no_fee"]) + F(s.get("crypto_fee") or 0)))
        elif F(s["crypto_sent"]) != F(s["crypto_received"]):
            want.append(("INTRA", "MOVE", ts, F(s["crypto_sent"]) - F(s["crypto_received"])))
    got: Dict[Tuple[str, int], List[Any]] = {}
    for r in D["detail"]:
        k = (r["event_table"], r["event"])
        g = got.setdefault(k, [r["event_table"], r["type"].upper(), r["event_ts"].isoformat(), Fraction(0), 0, r["lot"] is not None])
        g[3] += r["amount"]
        g[4] += 1
    got_list = sorted((g[0], g[1], g[2], g[3]) for g in got.values())
    problems: List[str] = []
    if got_list != sorted(want):
        missing = [w for w in sorted(want) if w not in got_list]
        extra = [g for g in got_list if g not in want]
        problems.append(f"taxed events differ from the taxable input: missing {[(a, b, c[:10], str(d)) for a, b, c, d in missing]}, unexpected {[(a, b, c[:10], str(d)) for a, b, c, d in extra]}")
    for g in got.values():
        if g[0] == "IN" and (g[4] != 1 or g[5]):
            problems.append(f"earn event {g[1]} at {g[2]} reported in {g[4]} entries / with a lot")
    if sorted(D["taxable"]) != sorted(k[1] for k in got):
        problems.append(f"taxable event set rows {sorted(D['taxable'])} != rows with gain/loss entries {sorted(k[1] for k in got)}")
    if problems:
        st.violation(dict(payload, signature=f"C03 front end / {problems[0].split(':')[0][:50]}", what=f"{case['label']} :: {problems[0]}", problems=problems[:5]))
    elif len(want) >= 3:
        st.inc("distinct_nontrivial")
        st.sample({"front end": case["label"], "taxable events": [f"{a}/{b} {d}" for a, b, _c, d in sorted(want)]}, cap=1)


def fe_worker(chunk: List[Dict[str, Any]]) -> Stats:
    st = Stats()
    for c in chunk:
        fe_judge(st, c)
    return st


def fe_init() -> None:
    from rp2verif.props import c13

    c13.init()


def plan(tier: str) -> List[Dict[str, Any]]:
    sch = [((1970, "fifo"),), ((1970, "hifo"),)]
    if tier == "quick":
        return [
            {"name": "sequences", "schedules": sch, "steps": ("d",), "depth": 5, "dev": 0, "group": 2},
            {"name": "one same-instant step", "schedules": sch, "steps": ("d",), "depth": 4, "dev": 1, "group": 2, "from_depth": 2},
        ]
    return [
        {"name": "sequences", "schedules": sch + [((1970, "lifo"),), ((1970, "lofo"),)], "steps": ("d",), "depth": 5, "dev": 0, "group": 1},
        {"name": "sequences, depth 6", "schedules": sch, "steps": ("d",), "depth": 6, "dev": 0, "group": 1, "from_depth": 6},
        {"name": "one same-instant step", "schedules": sch, "steps": ("d",), "depth": 5, "dev": 1, "group": 1, "from_depth": 2},
        {"name": "two same-instant steps", "schedules": sch, "steps": ("d",), "depth": 5, "dev": 2, "group": 1, "from_depth": 3},
    ]


def main(tier: str, budget_s: Optional[float] = None) -> int:
    t0 = time.time()
    deadline = t0 + (budget_s or (180 if tier == "quick" else 1800))
    total, info, complete = run_phases(plan(tier), generic_worker, FIRST, SYMBOLS, EXTRA, deadline, __name__, by_depth=True)
    fe = fe_cases(tier)
    n = max(1, min(len(fe), common.NPROC * 4))
    chunks = [fe[i::n] for i in range(n)]
    tf = time.time()
    results, done = common.pmap(fe_worker, chunks, deadline=max(deadline, time.time() + 60), init=fe_init)
    for r in results:
        if r is not None:
            total.merge(r)
    complete = complete and done == len(chunks)
    info.append({"phase": "front end (spreadsheet -> parse_ods -> compute_tax): acquisitions of every IN type paying a crypto fee", "cases": len(fe),
                 "executions": total.get("front_end_evaluations"), "alphabet": [H.sym_str(x) for x in FE_SYMBOLS], "complete": done == len(chunks), "wall_s": round(time.time() - tf, 1)})
    new, matched = common.report(PROP, total.violations)
    coverage = {
        "evaluations": total.get("evaluations"),
        "distinct_nontrivial": total.get("distinct_nontrivial"),
        "rule": (
            "all sequences over the 21 (table, type) symbols after a covering purchase (depth counts the purchase), one day "
            "apart, plus every placement of one (thorough: two) same-instant steps, x methods; distinct by construction; "
            "non-trivial = contains a taxable row and no symbol twice"
        ),
        "alphabet": [H.sym_str(s) for s in SYMBOLS],
        "phases": info,
        "per_depth": {k: v for k, v in sorted(total.counters.items()) if k.startswith("evaluations_depth_")},
        "exhaustive": bool(complete),
        "violations_total": total.get("violations_total"),
        "known_finding_hits": matched,
        "samples": total.samples[:6],
    }
    common.write_evidence(PROP, tier, LEVEL, coverage, time.time() - t0, new, assumptions=[
        "negative STAKING acquisitions and transfer fees worth < 5e-14 fiat are outside the alphabet (DESIGN.md section 4)",
    ])
    print(f"{PROP} {tier}: evaluations={total.get('evaluations')} nontrivial={total.get('distinct_nontrivial')} violations={total.get('violations_total')} "
          f"(unlisted {new}) exhaustive={complete} wall={time.time() - t0:.1f}s")
    for i in info:
        print("  ", i)
    return 1 if new else 0


def replay(path: str) -> int:
    import json

    from rp2verif.lotrun import _to_tuple, replay_compute

    with open(path, encoding="utf-8") as f:
        p = json.load(f)
    if "front_end" in p:
        import multiprocessing as mp

        from rp2verif import frdriver as D

        fe = p["front_end"]
        hist = _to_tuple(fe["hist"])
        specs = H.materialize(hist, row_order=fe["row_order"], uid=True)
        sheet, keyed = D.to_sheet(specs, "B1")
        case = {"label": f"{fe['method']}, rows {fe['row_order']}: {H.hist_str(hist)}", "hist": hist, "row_order": fe["row_order"], "assets": {"B1": keyed}, "sheets": {"B1": sheet},
                "schedule": [(1970, fe["method"])], "from": None, "to": None, "country": "us", "lang": "en", "reports": [], "allow_negative": False}
        with mp.get_context("fork").Pool(1, initializer=fe_init) as pool:
            st = pool.apply(fe_worker, ([case],))
        if st.violations:
            print(f"VIOLATION property={PROP} replay={path}\n  {st.violations[0]['what']}")
            return 1
        print(f"replay: {path}: property {PROP} holds on this case")
        return 0
    return replay_compute(__name__, path)
