"""C11 - parsed transactions equal the spreadsheet rows for any column layout.

Exhaustive families of column layouts (all rotations, all transpositions, reversal, every subset of optional columns
mapped, an unmapped column at every gap; pairs of these), table orders, blank-row placements and table subsets, each
parsed with a typed row palette in which every numeric cell holds a different 11-decimal value. The oracle compares
every field of every parsed transaction with the generating row (documented defaults in exact rationals).
"""
from __future__ import annotations

import itertools
import os
import time
from typing import Any, Dict, Iterator, List, Optional, Sequence, Tuple

from rp2verif import common
from rp2verif.common import Stats

PROP = "C11"
LEVEL = "exploration"

IN_TYPES = ("AIRDROP", "BUY", "DONATE", "GIFT", "HARDFORK", "INCOME", "INTEREST", "MINING", "STAKING", "WAGES")
OUT_TYPES = ("DONATE", "FEE", "GIFT", "LOST", "SELL", "STAKING")
TZS = ("+00:00", "+09:00", "-05:00", "+05:30")


class Numbers:
    """Distinct decimal strings with 11 decimals and at most 15 significant digits (exact through a double)."""

    def __init__(self) -> None:
        self.k = 0

    def next(self, int_digits: int = 3) -> str:
        self.k += 1
        whole = (self.k * 7919 + 13) % (10**int_digits)
        frac = (self.k * 1047290321 + 12345678901) % 10**11
        if frac % 10 == 0:
            frac += 7
        return f"{whole}.{frac:011d}"


def palette() -> Dict[str, List[Dict[str, Any]]]:
    """One row per transaction type and optional-cell pattern; sheet order is NOT time order; zones differ."""
    n = Numbers()
    rows: Dict[str, List[Dict[str, Any]]] = {"in": [], "out": [], "intra": []}
    day = 0

    def ts() -> str:
        nonlocal day
        day += 1
        d = (day * 37) % 300
        frac = ("", ".250000", ".000001", ".999999")[(day // 3) % 4]  # sub-second instants are part of the row
        return f"2020-{1 + d // 28 % 12:02d}-{1 + d % 28:02d} {(day * 5) % 24:02d}:{(day * 7) % 60:02d}:{(day * 11) % 60:02d}{frac}{TZS[day % 4]}"

    patterns = ("none", "crypto_fee", "fiat_all", "fiat_no_fee_only", "crypto_fee+fiat_in", "crypto_fee+fiat_with_fee_only")
    for i, typ in enumerate(IN_TYPES):
        for pat in (patterns if typ in ("BUY", "INTEREST") else (patterns[i % 6],)):
            r: Dict[str, Any] = {
                "timestamp": ts(), "asset": "B1", "exchange": ("X1", "X2", "X3")[i % 3], "holder": ("H1", "H2")[i % 2], "transaction_type": typ if i % 2 else typ.lower(),
                "spot_price": n.next(4), "crypto_in": n.next(2), "crypto_fee": None, "fiat_in_no_fee": None, "fiat_in_with_fee": None, "fiat_fee": None,
                "unique_id": f"id-in-{i}-{pat}" if i % 3 else None, "notes": f"note in {i}" if i % 2 else None,
            }
            if pat == "crypto_fee":
                r["crypto_fee"] = "0." + n.next(1).split(".")[1]
            elif pat == "crypto_fee+fiat_in":
                r["crypto_fee"] = "0." + n.next(1).split(".")[1]
                r["fiat_in_no_fee"] = n.next(4)  # exchange-supplied totals next to a crypto fee: kept verbatim by the split
                r["fiat_in_with_fee"] = n.next(4)
            elif pat == "crypto_fee+fiat_with_fee_only":
                r["crypto_fee"] = "0." + n.next(1).split(".")[1]
                r["fiat_in_with_fee"] = n.next(4)
            elif pat == "fiat_all":
                r["fiat_fee"] = n.next(1)
                r["fiat_in_no_fee"] = n.next(4)  # deliberately not crypto_in * spot: exchange-supplied values are used verbatim
                r["fiat_in_with_fee"] = n.next(4)
            elif pat == "fiat_no_fee_only":
                r["fiat_in_no_fee"] = n.next(4)
            rows["in"].append(r)
    for i, typ in enumerate(OUT_TYPES):
        for pat in (("none", "all", "zero_fee", "zero_fiat_fee") if typ == "SELL" else (("none", "all")[i % 2],)):
            r = {
                "timestamp": ts(), "asset": "B1", "exchange": ("X1", "X2", "X3")[i % 3], "holder": ("H1", "H2")[(i + 1) % 2], "transaction_type": typ,
                "spot_price": n.next(4), "crypto_out_no_fee": "0" if typ == "FEE" else n.next(1), "crypto_fee": "0" if pat == "zero_fee" else "0." + n.next(1).split(".")[1],
                "crypto_out_with_fee": None, "fiat_out_no_fee": None, "fiat_fee": None,
                "unique_id": f"id-out-{i}" if i % 2 else None, "notes": f"note out {i}" if i % 3 else None,
            }
            if pat == "all" and typ != "FEE":
                r["crypto_out_with_fee"] = n.next(1)
                r["fiat_out_no_fee"] = n.next(4)
                r["fiat_fee"] = n.next(1)
            elif pat == "all":
                r["fiat_fee"] = n.next(1)
            elif pat == "zero_fiat_fee":
                r["fiat_fee"] = "0"  # the exchange reports a fee worth 0 although a crypto fee was charged: a supplied value, not an empty cell
            rows["out"].append(r)
    for i, (fee, spot) in enumerate(((True, True), (False, False), (False, True), (True, True))):
        sent = n.next(2)
        recv = sent
        if fee:
            # received = sent - a distinct fee (both with at most 11 decimals)
            from fractions import Fraction

            from rp2verif.history import dec

            recv = dec(Fraction(sent) - Fraction("0.0" + n.next(1).split(".")[1][:10]))
        rows["intra"].append({
            "timestamp": ts(), "asset": "B1", "from_exchange": ("X1", "X2")[i % 2], "from_holder": "H1", "to_exchange": ("X2", "X1", "X3", "X2")[i] if i != 3 else "X2",
            "to_holder": ("H1", "H2")[i % 2] if i != 3 else "H1", "spot_price": n.next(4) if spot else None, "crypto_sent": sent, "crypto_received": recv,
            "unique_id": f"id-intra-{i}" if i % 2 else None, "notes": f"note intra {i}" if i != 1 else None,
        })
    # a transfer from an account to itself (accepted with a warning)
    rows["intra"][3]["from_exchange"] = rows["intra"][3]["to_exchange"] = "X2"
    rows["intra"][3]["from_holder"] = rows["intra"][3]["to_holder"] = "H1"
    return rows


def never_empty_fields(table: str, rows: Sequence[Dict[str, Any]]) -> List[str]:
    """Fields whose cell is non-empty in every palette row: only these may sit in column 0 (the table state machine
    reads column 0 of every row)."""
    from rp2verif.seams import parser as P

    return [f for f in P.FIELDS[table] if all(r.get(f) is not None for r in rows)]


def table_layouts(table: str, rows: Sequence[Dict[str, Any]], families: Sequence[str]) -> Iterator[Tuple[str, Dict[str, int]]]:
    """(label, field->column) for one table."""
    from rp2verif.seams import parser as P

    fields = P.FIELDS[table]
    n = len(fields)
    ok0 = set(never_empty_fields(table, rows))

    def valid(m: Dict[str, int]) -> bool:
        at0 = [f for f, c in m.items() if c == 0]
        return bool(at0) and at0[0] in ok0

    if "rot" in families:
        for k in range(1, n):
            m = {f: (i + k) % n for i, f in enumerate(fields)}
            if valid(m):
                yield f"{table}:rot{k}", m
    if "swap" in families:
        for i, j in itertools.combinations(range(n), 2):
            m = {f: x for x, f in enumerate(fields)}
            m[fields[i]], m[fields[j]] = j, i
            if valid(m):
                yield f"{table}:swap({fields[i]},{fields[j]})", m
    if "rev" in families:
        m = {f: n - 1 - i for i, f in enumerate(fields)}
        if valid(m):
            yield f"{table}:reversed", m
    if "subset" in families:
        opt = P.OPTIONAL[table]
        for mask in range(0, 2 ** len(opt) - 1):  # the full set is the canonical layout
            keep = [f for f in fields if f not in opt or (mask >> opt.index(f)) & 1]
            yield f"{table}:mapped-optionals={[f for f in keep if f in opt]}", {f: fields.index(f) for f in keep}  # dropped columns stay as unmapped cells
            m = {f: i for i, f in enumerate(keep)}  # ... and compacted
            if valid(m):
                yield f"{table}:compact-optionals={[f for f in keep if f in opt]}", m
    if "junk" in families:
        for g in range(1, n + 1):
            yield f"{table}:unmapped-column@{g}", {f: (i if i < g else i + 1) for i, f in enumerate(fields)}
        yield f"{table}:unmapped-columns-far-right", {f: i for i, f in enumerate(fields)} | {fields[-1]: n + 4}


def drop_unmapped(rows: Sequence[Dict[str, Any]], mapping: Dict[str, int], table: str) -> Optional[List[Dict[str, Any]]]:
    """Rows as they can be expressed under a mapping that leaves some optional columns out (their cells do not exist)."""
    out = []
    for r in rows:
        out.append({k: (v if k in mapping else None) for k, v in r.items()})
    return out


def evaluate(st: Stats, label: str, layout: Dict[str, Dict[str, int]], tables: Sequence[str], leading: int, between: int, trailing: int,
             via_file: bool = False) -> None:
    from rp2verif.seams import parser as P

    pal = palette()
    st.inc("evaluations")
    data = []
    for t in tables:
        rows = pal[t]
        if t == "in":
            # an IN row may carry crypto_fee or fiat_fee, not both; a mapping without crypto_fee simply has no such cell
            pass
        data.append((t, drop_unmapped(rows, layout[t], t)))
    width = P.ncols(layout) + 1
    rows_matrix, index = P.sheet_rows(data, layout, width=width, leading=leading, between=between, trailing=trailing)
    base = {"label": label, "layout": layout, "tables": list(tables), "leading": leading, "between": between, "trailing": trailing, "via_file": via_file}
    try:
        cfg = P.config_for(layout)
        doc = P.build_doc({"B1": rows_matrix})
        if via_file:
            path = os.path.join(common.scratch(), f"c11_{os.getpid()}.ods")
            doc = P.save_and_reopen(doc, cfg, path)
        got = P.observed(P.parse_ods(cfg, "B1", doc))
    except Exception as exc:  # pylint: disable=broad-except
        st.violation(dict(base, signature=f"C11 valid input rejected / {type(exc).__name__}", what=f"{label}: valid config/spreadsheet pair rejected: {type(exc).__name__}: {str(exc)[:300]}"))
        return
    want = P.expected(index, layout)
    problem = P.compare(got, want)
    if problem:
        st.violation(dict(base, signature=f"C11 field mismatch / {problem.split(':')[0]} / {problem.split(':')[1].strip().split(' ')[0] if ':' in problem else ''}",
                          what=f"{label} (tables {'/'.join(tables)}, blank rows {leading}/{between}/{trailing}{', via file' if via_file else ''}): {problem}"))
    st.inc("rows_compared", sum(len(v) for v in want.values()))
    if label != "canonical":
        st.inc("distinct_nontrivial")
    st.sample({"label": label, "tables": list(tables), "rows": len(index), "layout": {t: layout[t] for t in tables}}, cap=1)


def cases(tier: str) -> List[Tuple[Any, ...]]:
    """Every case: (label, layout, tables, leading, between, trailing, via_file)."""
    from rp2verif.seams import parser as P

    pal = palette()
    canon = P.canonical_layout()
    fam = ("rot", "swap", "rev", "subset", "junk")
    singles: Dict[str, List[Tuple[str, Dict[str, int]]]] = {t: list(table_layouts(t, pal[t], fam)) for t in ("in", "out", "intra")}
    out: List[Tuple[Any, ...]] = [("canonical", canon, ("in", "out", "intra"), 0, 1, 0, False)]
    # one table deviates, the other two canonical
    for t in ("in", "out", "intra"):
        for label, m in singles[t]:
            out.append((label, dict(canon, **{t: m}), ("in", "out", "intra"), 0, 1, 0, False))
    # sheet structure: all table orders x blank rows; table subsets
    for order in itertools.permutations(("in", "out", "intra")):
        for leading in (0, 2):
            for between in (0, 1, 3):
                for trailing in (0, 2):
                    out.append((f"order={'/'.join(order)}", canon, order, leading, between, trailing, False))
    for subset in (("in",), ("in", "out"), ("out", "in"), ("in", "intra"), ("intra", "in")):
        out.append((f"tables={'/'.join(subset)}", canon, subset, 1, 2, 1, False))
    # file round trip (saved .ods reopened with open_ods) for every rotation and reversal
    for t in ("in", "out", "intra"):
        for label, m in table_layouts(t, pal[t], ("rot", "rev")):
            out.append((label + " [file]", dict(canon, **{t: m}), ("intra", "in", "out"), 1, 0, 1, True))
    # pairs of deviations across two tables
    pair_fams = ("rot", "rev", "junk") if tier == "quick" else fam
    for a, b in (("in", "out"), ("in", "intra"), ("out", "intra")):
        la = list(table_layouts(a, pal[a], pair_fams))
        lb = list(table_layouts(b, pal[b], pair_fams))
        for (l1, m1), (l2, m2) in itertools.product(la, lb):
            out.append((f"{l1} + {l2}", dict(canon, **{a: m1, b: m2}), ("out", "intra", "in"), 0, 0, 0, False))
    if tier == "thorough":
        # pairs of deviations inside one table: a rotation followed by a transposition
        for t in ("in", "out", "intra"):
            fields = P.FIELDS[t]
            n = len(fields)
            ok0 = set(never_empty_fields(t, pal[t]))
            for k in range(0, n):
                for i, j in itertools.combinations(range(n), 2):
                    m = {f: (x + k) % n for x, f in enumerate(fields)}
                    m[fields[i]], m[fields[j]] = m[fields[j]], m[fields[i]]
                    at0 = [f for f, c in m.items() if c == 0][0]
                    if at0 in ok0:
                        out.append((f"{t}:rot{k}+swap({fields[i]},{fields[j]})", dict(canon, **{t: m}), ("in", "out", "intra"), 0, 1, 0, False))
        # structure x layout: every table order with every rotation of the IN table
        for order in itertools.permutations(("in", "out", "intra")):
            for label, m in table_layouts("in", pal["in"], ("rot",)):
                out.append((f"order={'/'.join(order)} + {label}", dict(canon, **{"in": m}), order, 2, 3, 2, False))
    return out


def worker(chunk: List[Tuple[Any, ...]]) -> Stats:
    st = Stats()
    for c in chunk:
        evaluate(st, *c)
    return st


def main(tier: str, budget_s: Optional[float] = None) -> int:
    t0 = time.time()
    deadline = t0 + (budget_s or (240 if tier == "quick" else 3000))
    from rp2verif.seams import parser as P  # noqa: F401  (imports rp2 before forking)

    all_cases = cases(tier)
    nchunks = max(1, min(len(all_cases), common.NPROC * 8))
    chunks = [all_cases[i::nchunks] for i in range(nchunks)]
    results, done = common.pmap(worker, chunks, deadline=deadline)
    total = Stats()
    for r in results:
        if r is not None:
            total.merge(r)
    complete = done == len(chunks)
    new, matched = common.report(PROP, total.violations)
    pal = palette()
    coverage = {
        "evaluations": total.get("evaluations"),
        "distinct_nontrivial": total.get("distinct_nontrivial"),
        "rows_compared_field_by_field": total.get("rows_compared"),
        "cases_planned": len(all_cases),
        "rule": (
            "per table: all rotations, all transpositions, reversal, every proper subset of optional columns mapped (left in place and "
            "compacted), an unmapped column at every gap (column 0 always holds a field that is non-empty in every row); all 6 table orders x "
            "leading/between/trailing blank rows; table subsets; a saved-and-reopened .ods for every rotation; pairs of layout deviations across "
            "two tables (thorough: also rotation+transposition inside one table, table order x rotation). Every case parses the full typed row "
            "palette; distinct by construction; non-trivial = differs from the canonical layout"
        ),
        "palette_rows": {t: len(v) for t, v in pal.items()},
        "exhaustive": bool(complete),
        "violations_total": total.get("violations_total"),
        "known_finding_hits": matched,
        "samples": total.samples[:4] + [{"palette_in_row": pal["in"][1]}, {"palette_out_row": pal["out"][1]}, {"palette_intra_row": pal["intra"][0]}],
    }
    common.write_evidence(PROP, tier, LEVEL, coverage, time.time() - t0, new, assumptions=[
        "numeric cells hold values with 11 decimals and at most 15 significant digits (what a double carries exactly); text unique ids",
        "fields derived by a product (fiat values not supplied by the row) are compared at 1e-15 relative, supplied ones exactly",
    ])
    print(f"{PROP} {tier}: evaluations={total.get('evaluations')} rows_compared={total.get('rows_compared')} nontrivial={total.get('distinct_nontrivial')} "
          f"violations={total.get('violations_total')} (unlisted {new}) exhaustive={complete} wall={time.time() - t0:.1f}s")
    return 1 if new else 0


def replay(path: str) -> int:
    import json

    with open(path, encoding="utf-8") as f:
        p = json.load(f)
    st = Stats()
    evaluate(st, p["label"], p["layout"], p["tables"], p["leading"], p["between"], p["trailing"], p.get("via_file", False))
    if st.violations:
        print(f"VIOLATION property={PROP} replay={path}\n  {st.violations[0]['what']}")
        return 1
    print(f"replay: {path}: property {PROP} holds on this case")
    return 0
