"""C19 - hyperlinks in the full report lead to the row of the same transaction.

Same generator seam and inputs as C13 (two assets sharing spreadsheet row numbers, sheet order != time order, a unique
id on every row) x every window over the dates of interest; the oracle follows every HYPERLINK of '<asset> Tax' and of
'Summary' into the sheet it names and compares the unique id found there.
"""
from __future__ import annotations

import time
from datetime import timedelta
from typing import Any, Dict, List, Optional, Tuple

from rp2verif import common
from rp2verif import frdriver as D
from rp2verif.common import Stats

PROP = "C19"
LEVEL = "exploration"


def judge(st: Stats, case: Dict[str, Any]) -> None:
    from rp2verif import fullreport as FR
    from rp2verif.seams import generator as G

    st.inc("evaluations")
    res = G.run(case)
    res["lang"] = "en"
    payload = {"case": D.jsonable(case)}
    tag = D.case_str(case)
    if res["error"]:
        st.violation(dict(payload, signature=f"C19 no report: {res['stage']} / {res['error'].split(':')[0]} / {res.get('where', '')}",
                          what=f"{tag} :: {res['stage']}: {res['error'][:200]}"))
        return
    problems, counts = FR.check_c19(case, res)
    for k, v in counts.items():
        st.inc(k, v)
    if counts["unlinked_hidden"] or (counts["links"] and len(res["dumps"]) >= 2):
        st.inc("distinct_nontrivial")
    if problems:
        first = problems[0]
        kind = "summary link" if first.startswith(res["names"].get("Summary", "Summary")) else ("link of a hidden transaction" if "is not shown" in first else "transaction link")
        st.violation(dict(payload, signature=f"C19 {kind}", what=f"{tag} :: {first}", problems=problems[:6]))
    elif counts["unlinked_hidden"]:
        st.sample({"case": tag, **counts}, cap=1)


def cases(tier: str) -> List[Dict[str, Any]]:
    out: List[Dict[str, Any]] = []
    for h in D.histories(3):
        specs = D.specs_for(h, "a")
        if specs is None:
            continue
        n = len(h)
        idx = sum(ord(c) for c in str(h)) % 3
        # thorough: all three second assets for the shortest histories only (the full product, 280 000 report runs, is three times the budget)
        seconds = (0, 1, 2) if (n <= 1 and tier == "thorough") else (idx,)
        for second in seconds:
            s2 = D.specs_for(D.SECOND[second], "b")
            dates = D.event_dates([specs, s2 or []])
            if n <= 2:
                wins = D.windows(dates, "all")
                if tier == "quick":
                    ev = set(dates)
                    wins = [w for w in wins if w[0] is None or w[1] is None or (w[0] in ev and w[1] in ev)]
            else:
                # depth 3: every from-date on / the day after a transaction (what hides lots that later disposals consume), plus no filter
                wins = [(None, None)] + [(d, None) for d in dates] + [(d + timedelta(days=1), None) for d in dates]
                if tier == "quick":
                    k = sum(ord(c) for c in str(h))
                    wins = [wins[1 + k % (len(wins) - 1)]]
            for w in wins:
                sch = "fifo" if tier == "quick" else ("fifo", "hifo")[len(out) % 2]
                orders = ("reverse", "chrono") if ((tier == "thorough" and n == 1) or n == 3) else (("reverse", "chrono")[len(out) % 2],)
                for ro in orders:
                    c = D.make_case(h, second, sch, w, row_order=ro)
                    if c:
                        out.append(c)
    # every timestamp written at -05:00 / +09:00 around New Year (own year != UTC year): the Summary lines are per OWN year and link to the first
    # detail row of that year
    for h in D.histories(2):
        idx = sum(ord(c) for c in str(h)) % 3
        for tz in (-300, 540):
            s1 = D.specs_for(h, "a", tz=tz, new_year=True)
            if s1 is None:
                continue
            s2 = D.specs_for(D.SECOND[idx], "b", tz=tz, new_year=True)
            for w in D.windows(D.event_dates([s1, s2 or []]), "few"):
                c = D.make_case(h, idx, "fifo", w, tz=tz, new_year=True)
                if c:
                    out.append(c)
    # the data of the 9 inputs bundled with RP2, every row given a unique id
    out += D.bundled_cases(["rp2_full_report"], methods=("fifo",) if tier == "quick" else ("fifo", "hifo"), mode="few")
    return out


def worker(chunk: List[Dict[str, Any]]) -> Stats:
    st = Stats()
    for c in chunk:
        judge(st, c)
    return st


def init() -> None:
    from rp2verif.props import c13

    c13.init()


def main(tier: str, budget_s: Optional[float] = None) -> int:
    t0 = time.time()
    deadline = t0 + (budget_s or (270 if tier == "quick" else 3300))
    all_cases = cases(tier)
    n = max(1, min(len(all_cases), common.NPROC * 16))
    chunks = [all_cases[i::n] for i in range(n)]
    results, done = common.pmap(worker, chunks, deadline=deadline, init=init)
    total = Stats()
    for r in results:
        if r is not None:
            total.merge(r)
    complete = done == len(chunks)
    new, matched = common.report(PROP, total.violations)
    coverage = {
        "evaluations": total.get("evaluations"),
        "distinct_nontrivial": total.get("distinct_nontrivial"),
        "cases_planned": len(all_cases),
        "links_followed": total.get("links"),
        "cells_of_hidden_transactions_checked_for_absence_of_a_link": total.get("unlinked_hidden"),
        "summary_links_followed": total.get("summary_links"),
        "rule": (
            "asset B1 = every valid history up to depth 3 over the multi-year alphabet, asset B2 = a fixed history with the same spreadsheet "
            "row numbers, unique ids on all rows, sheet order reversed w.r.t. time; depth <= 2: every window over the dates of interest "
            "(quick: every from-only and to-only window, from+to pairs on transaction dates), depth 3: from-dates on / after each transaction. "
            "One evaluation = one real generator run; every HYPERLINK is followed into the named sheet and the unique id on the target row is "
            "compared. non-trivial = some transaction referenced by a shown fraction is hidden by the filter, or links exist with two assets"
        ),
        "exhaustive": bool(complete),
        "violations_total": total.get("violations_total"),
        "known_finding_hits": matched,
        "samples": total.samples[:5],
    }
    common.write_evidence(PROP, tier, LEVEL, coverage, time.time() - t0, new, assumptions=[
        "identity of a transaction in the report = the unique id printed on its In-Out row (the driver gives every row a distinct one)",
    ])
    print(f"{PROP} {tier}: evaluations={total.get('evaluations')} of {len(all_cases)} links={total.get('links')} hidden_unlinked={total.get('unlinked_hidden')} "
          f"summary_links={total.get('summary_links')} violations={total.get('violations_total')} (unlisted {new}) exhaustive={complete} wall={time.time() - t0:.1f}s")
    return 1 if new else 0


def replay(path: str) -> int:
    import json
    import multiprocessing as mp

    with open(path, encoding="utf-8") as f:
        p = json.load(f)
    case = D.from_json(p["case"])
    ctx = mp.get_context("fork")
    with ctx.Pool(1, initializer=init) as pool:
        st = pool.apply(worker, ([case],))
    if st.violations:
        print(f"VIOLATION property={PROP} replay={path}\n  {st.violations[0]['what']}")
        return 1
    print(f"replay: {path}: property {PROP} holds on this case")
    return 0
