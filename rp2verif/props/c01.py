"""C01 - disposals consume lots in the order the accounting method prescribes.

Bounded exhaustive exploration of the prefix tree of valid single-asset histories under every single method and
year->method schedule; on every node the real compute_tax output is judged by the order monitor, and in tie-free
histories the complete pairing is compared with the reference matcher.
"""
from __future__ import annotations

import time
from typing import Any, Dict, List, Optional, Sequence, Tuple

from rp2verif import common
from rp2verif import history as H
from rp2verif.common import Stats
from rp2verif.lottree import History, Tree
from rp2verif.lotrun import METHODS, generic_worker, run_phases, sched_str, single_schedules, three_year_schedules, two_year_schedules
from rp2verif.models import lots as ML

PROP = "C01"
LEVEL = "model_checking"

SYMBOLS = (
    [H.B(p, a) for p in (1, 2, 3) for a in (1, 2)]
    + [H.E(p, a) for p in (1, 3) for a in (1, 2)]
    + [H.S(a) for a in (1, 2, 3)]
    + [H.M(2, 1)]
)
FIRST = [s for s in SYMBOLS if s[0] in ("B", "E")]
EXTRA = None  # valid histories only

DISPOSAL_TYPES = ("GIFT", "DONATE", "FEE", "LOST", "STAKING")
TZ_DEVS = (540, -300)
SCALES = ("3/10", "1/100000000000")
PRICE_SCALES = ("1/1000", "1/250")  # prices that differ by less than a cent / by fractions of a cent
# 18:00 UTC on Dec 31: one hour steps cross midnight UTC, +09:00 is already the new year, -05:00 stays in the old one long after
NEW_YEAR_BASE = "2020-12-31T18:00:00+00:00"


def new_year_variants(hist: History) -> List[Tuple[History, Dict[str, Any], str]]:
    """The history replayed in one-hour steps from 18:00 UTC on Dec 31, with one transaction (every position, both
    offsets) written in +09:00 / -05:00: its own calendar year differs from its UTC year, and the method in force is
    the one of ITS year."""
    from datetime import datetime

    base = datetime.fromisoformat(NEW_YEAR_BASE)
    out = []
    stepped = tuple((it[0], "=" if it[1] == "=" else "h") for it in hist)
    for tz in (0,) + TZ_DEVS:
        for i in range(len(hist)):
            if tz == 0 and i > 0:
                continue
            h2 = tuple((it[0], it[1], tz if j == i else 0) for j, it in enumerate(stepped))
            out.append((h2, {"scale": 1, "base": base}, f"new-year;tz:{tz}@{i}"))
    return out


# another asset of the same run, computed first with the same engine and method objects (as rp2_main does); its lots sit on the same spreadsheet
# rows as the explored asset's but rank differently by price and time, and its disposals make the method select (and remember) them
PRELUDE = ((H.B(3, 1), "="), (H.B(1, 2), "d"), (H.E(2, 1), "d"), (H.S(2), "d"), (H.B(2, 1), "d"), (H.S(1), "d"))


def deviations(hist: History, max_dev: Any) -> List[Tuple[History, Dict[str, Any], str]]:
    """All variants of hist with 1..max_dev deviations from the defaults (SELL, UTC, integer amounts)."""
    if max_dev == "newyear":
        return new_year_variants(hist)
    if max_dev == "prelude":
        return [(hist, {"scale": 1, "prelude": H.materialize(PRELUDE)}, "another asset computed first with the same engine")]
    single: List[Tuple[str, Any]] = []
    for i, item in enumerate(hist):
        sym = item[0]
        if sym[0] == "S":
            for t in DISPOSAL_TYPES:
                single.append(("type", (i, t)))
        for tz in TZ_DEVS:
            single.append(("tz", (i, tz)))
    for sc in SCALES:
        single.append(("scale", sc))
    for sc in PRICE_SCALES:
        single.append(("pscale", sc))
    for i, item in enumerate(hist):
        if item[0][0] == "B":
            single.append(("lotfee", i))  # a large fiat fee on this purchase: cost per unit changes, spot price (the ranking feature) does not

    def apply(devs: Sequence[Tuple[str, Any]]) -> Optional[Tuple[History, Dict[str, Any], str]]:
        items = [list(it) + ([0] if len(it) < 3 else []) for it in hist]
        opts: Dict[str, Any] = {"scale": 1}
        touched = set()
        use_hours = False
        for kind, arg in devs:
            if kind == "type":
                i, t = arg
                if ("type", i) in touched:
                    return None
                touched.add(("type", i))
                s = items[i][0]
                items[i][0] = H.S(s[2], s[5], t, s[1], s[3])
            elif kind == "tz":
                i, tz = arg
                if ("tz", i) in touched:
                    return None
                touched.add(("tz", i))
                items[i][2] = tz
                use_hours = True
            elif kind == "scale":
                if "scale" in touched:
                    return None
                touched.add("scale")
                opts["scale"] = arg
            elif kind == "lotfee":
                if ("lotfee", arg) in touched:
                    return None
                touched.add(("lotfee", arg))
                b = items[arg][0]
                items[arg][0] = H.B(b[1], b[2], b[3], b[4], 0, 50)
            elif kind == "pscale":
                if "pscale" in touched:
                    return None
                touched.add("pscale")
                opts["price_scale"] = arg
        if use_hours:
            # hours instead of days, so that the wall-clock order of differently-zoned timestamps contradicts
            # the order of the instants
            for it in items:
                if it[1] == "d":
                    it[1] = "h"
        label = ";".join(f"{k}:{a}" for k, a in devs)
        return tuple(tuple(it) for it in items), opts, label

    out = []
    for a in range(len(single)):
        r = apply([single[a]])
        if r:
            out.append(r)
    if max_dev >= 2:
        for a in range(len(single)):
            for b in range(a + 1, len(single)):
                r = apply([single[a], single[b]])
                if r:
                    out.append(r)
    return out


def judge(
    st: Stats,
    hist: History,
    specs: List[Dict[str, Any]],
    schedule: Sequence[Tuple[int, str]],
    out: Any,
    label: str = "",
) -> None:
    from rp2verif.seams import compute as C

    st.inc("states")
    st.inc(f"states_depth_{len(hist)}")
    if len(hist) > 1:
        st.inc("transitions")
    if not out.ok:
        st.violation(
            {
                "signature": f"C01 valid history rejected / {type(out.error).__name__}",
                "what": f"valid history rejected under {sched_str(schedule)}: {H.hist_str(hist)} :: {out.error}",
                "history": H.hist_str(hist), "hist": hist,
                "specs": specs,
                "schedule": list(schedule),
                "deviation": label,
            }
        )
        return
    fr = C.fractions_of(out.computed)
    problems = ML.monitor_order(specs, fr, schedule)
    # signature of the outcome: which (event, lot) pairs, with relation of the fraction to the lot size
    lots, disposals = ML.view(specs)
    with_lot = [f for f in fr if f[1] is not None]
    sig = (sched_str(schedule), tuple((e, l) for e, l, _ in with_lot))
    per_event: Dict[int, int] = {}
    for e, _l, _a in with_lot:
        per_event[e] = per_event.get(e, 0) + 1
    partial = any(a != lots[l].amount for _e, l, a in with_lot)
    nontrivial = any(n >= 2 for n in per_event.values()) or partial
    if nontrivial:
        st.inc("distinct_nontrivial")
        if len(hist) <= 4:
            st.sigs.add(hash((H.hist_str(hist), sig)) & 0xFFFFFFFFFFFF)
    if with_lot and len(lots) >= 2:
        st.inc("choice_nodes")
    if ML.tie_free(specs):
        order: List[int] = []
        for e, l, _a in fr:
            if l is not None and e not in order:
                order.append(e)
        ref = ML.reference_match(specs, order, schedule)
        got: Dict[Tuple[int, int], Any] = {}
        for e, l, a in with_lot:
            got[(e, l)] = got.get((e, l), 0) + a
        st.inc("traces_validated_against_impl")
        if ref != got:
            problems.append(f"pairing differs from the reference matcher: got {sorted(got.items())}, expected {sorted((ref or {}).items())}")
    if problems:
        st.violation(
            {
                "signature": f"C01 order / {sched_str(schedule) if len(schedule) == 1 else 'schedule'} / {problems[0].split(':')[0]}",
                "what": f"{sched_str(schedule)}: {H.hist_str(hist)} :: {problems[0]}",
                "history": H.hist_str(hist), "hist": hist,
                "specs": specs,
                "schedule": list(schedule),
                "fractions": [(e, l, str(a)) for e, l, a in fr],
                "problems": problems,
                "deviation": label,
            }
        )
    elif nontrivial and with_lot:
        st.sample(
            {
                "history": H.hist_str(hist), "hist": hist,
                "schedule": sched_str(schedule),
                "pairing(event row, lot row, amount)": [(e, l, str(a)) for e, l, a in fr],
                "deviation": label,
            },
            cap=2,
        )


# alphabet of the front-end phase (spreadsheet -> parse_ods -> compute_tax): lots of all three price ranks, two of them paying their fee in
# crypto - the parser turns each fee into a fee-typed disposal at the instant of the acquisition, which takes lots in method order too
FE_SYMBOLS = [H.B(2, 1), H.B(1, 2, fee="1/4"), H.B(3, 1, fee="1/2"), H.E(2, 1), H.S(1), H.S(2), H.M(2, 1)]
FE_FIRST = [s for s in FE_SYMBOLS if s[0] in ("B", "E")]


# lots of three price ranks bought on three days, then one sale in each of 2020, 2021 and 2022: every sale has >= 2 open lots that the four
# methods rank differently (used by the phase that reads the schedule back from a config file)
CONFIG_SCHEDULE_HISTORY: History = ((H.B(2, 2), "="), (H.B(3, 2), "d"), (H.B(1, 2), "d"), (H.S(1), "d"), (H.S(1), "y"), (H.S(1), "y"))


HEAVY_PHASES = ("single methods", "three-year schedules", "1 deviation", "2 deviations", "two-year schedules across New Year, one transaction in another UTC offset",
                "amount scales", "one transaction in another UTC offset", "two-year schedules")


def plan(tier: str) -> List[Dict[str, Any]]:
    """List of exploration phases: each is enumerated level by level."""
    singles = single_schedules()
    two = two_year_schedules()
    if tier == "quick":
        return [
            {"name": "single methods", "schedules": singles, "steps": ("=", "d"), "depth": 4, "dev": 0, "group": 1},
            {"name": "two-year schedules", "schedules": two, "steps": ("=", "d", "y"), "depth": 3, "dev": 0, "group": 4},
            {"name": "three-year schedules", "schedules": three_year_schedules(), "steps": ("=", "d", "y"), "depth": 3, "dev": 0, "group": 6},
            {"name": "1 deviation", "schedules": singles, "steps": ("=", "d"), "depth": 3, "dev": 1, "group": 1, "from_depth": 2},
            {"name": "sheet order reversed", "schedules": singles, "steps": ("=", "d"), "depth": 3, "dev": 0, "group": 4, "row_order": "reverse"},
            {"name": "two-year schedules across New Year, one transaction in another UTC offset", "schedules": two, "steps": ("=", "d"), "depth": 3, "dev": "newyear", "group": 3,
             "from_depth": 2},
            {"name": "another asset computed first with the same engine", "schedules": singles, "steps": ("=", "d"), "depth": 3, "dev": "prelude", "group": 2, "from_depth": 2},
            {"name": "steps of 250 ms (same second), sheet order reversed", "schedules": singles, "steps": ("ms", "d"), "depth": 3, "dev": 0, "group": 4, "row_order": "reverse"},
            {"name": "front end: crypto-fee acquisitions through parse_ods", "schedules": singles, "steps": ("=", "d"), "depth": 3, "dev": "front", "group": 4, "symbols": "fe"},
            {"name": "front end, sheet order reversed", "schedules": singles, "steps": ("=", "d"), "depth": 3, "dev": "front", "group": 4, "symbols": "fe", "row_order": "reverse"},
        ]
    return [
        {"name": "single methods", "schedules": singles, "steps": ("=", "d"), "depth": 5, "dev": 0, "group": 1},
        {"name": "two-year schedules", "schedules": two, "steps": ("=", "d", "y"), "depth": 4, "dev": 0, "group": 2},
        {"name": "three-year schedules", "schedules": three_year_schedules(), "steps": ("=", "d", "y"), "depth": 4, "dev": 0, "group": 3},
        {"name": "1 deviation", "schedules": singles, "steps": ("=", "d"), "depth": 4, "dev": 1, "group": 1, "from_depth": 2},
        {"name": "2 deviations", "schedules": singles, "steps": ("=", "d"), "depth": 3, "dev": 2, "group": 1, "from_depth": 2},
        {"name": "sheet order reversed", "schedules": singles, "steps": ("=", "d"), "depth": 4, "dev": 0, "group": 4, "row_order": "reverse"},
        {"name": "sheet order reversed, schedules", "schedules": two, "steps": ("=", "d", "y"), "depth": 3, "dev": 0, "group": 4, "row_order": "reverse"},
        {"name": "two-year schedules across New Year, one transaction in another UTC offset", "schedules": two, "steps": ("=", "d"), "depth": 4, "dev": "newyear", "group": 2,
         "from_depth": 2},
        {"name": "another asset computed first with the same engine", "schedules": singles + two, "steps": ("=", "d"), "depth": 4, "dev": "prelude", "group": 2, "from_depth": 2},
        {"name": "steps of 250 ms (same second), sheet order reversed", "schedules": singles, "steps": ("ms", "d"), "depth": 4, "dev": 0, "group": 4, "row_order": "reverse"},
        {"name": "front end: crypto-fee acquisitions through parse_ods", "schedules": singles + two, "steps": ("=", "d", "y"), "depth": 4, "dev": "front", "group": 2, "symbols": "fe"},
        {"name": "front end, sheet order reversed", "schedules": singles, "steps": ("=", "d"), "depth": 4, "dev": "front", "group": 2, "symbols": "fe", "row_order": "reverse"},
    ]


def main(tier: str, budget_s: Optional[float] = None) -> int:
    t0 = time.time()
    budget = budget_s or (240 if tier == "quick" else 3300)
    deadline = t0 + budget
    phases = plan(tier)
    # cheap phases first, the big trees last: if the budget runs out, it cuts into depth, not into whole dimensions
    total, info, complete = run_phases([ph for ph in phases if ph.get("symbols") == "fe"], generic_worker, FE_FIRST, FE_SYMBOLS, EXTRA, deadline, __name__)
    main_phases = sorted([ph for ph in phases if ph.get("symbols") != "fe"], key=lambda ph: (ph["name"] in HEAVY_PHASES, ))
    t2, i2, c2 = run_phases(main_phases, generic_worker, FIRST, SYMBOLS, EXTRA, deadline, __name__, by_depth=True)
    total.merge(t2)
    info += i2
    complete = complete and c2
    from rp2verif.lotrun import run_bundled

    complete = run_bundled(__name__, total, info, deadline) and complete
    # the schedule as rp2_main gets it: written to a config file (every order of the lines), read back by the real Configuration
    import itertools

    from rp2verif.lotrun import config_schedule_worker, three_year_schedules, two_year_schedules

    tcs = time.time()
    cs_cases = [(sch, perm) for sch in two_year_schedules() + three_year_schedules() + [((2019, "fifo"), (2021, "lifo"), (2022, "fifo")), ((2019, "hifo"), (2021, "hifo"), (2022, "lofo"))]
                for perm in itertools.permutations(range(len(sch)))]
    ncs = common.NPROC * 2
    cres, cdone = common.pmap(config_schedule_worker, [(__name__, cs_cases[i::ncs]) for i in range(ncs)], deadline=max(deadline, time.time() + 60))
    for r in cres:
        if r is not None:
            total.merge(r)
    complete = complete and cdone == ncs
    info.append({"phase": "schedule read from a config file: every two- and three-year schedule x every order of the [accounting_methods] lines", "cases": len(cs_cases),
                 "executions": total.get("config_schedule_cases"), "wall_s": round(time.time() - tcs, 1)})
    new, matched = common.report(PROP, total.violations)
    coverage = {
        "states": total.get("states"),
        "transitions": total.get("transitions"),
        "traces_validated_against_impl": total.get("traces_validated_against_impl"),
        "evaluations": total.get("states"),
        "distinct_nontrivial": total.get("distinct_nontrivial"),
        "rule": (
            "every node of the prefix tree of valid single-asset histories (alphabet below, steps per phase) x every "
            "schedule is executed from scratch through compute_tax; (history, schedule) pairs are distinct by construction; "
            "non-trivial = some disposal spans >=2 lots or meets a partially consumed lot. distinct_outcome_signatures "
            "counts distinct (history, pairing) signatures among non-trivial nodes of depth <= 4"
        ),
        "distinct_outcome_signatures": len(total.sigs),
        "choice_nodes(>=2 lots and a disposal)": total.get("choice_nodes"),
        "alphabet": [H.sym_str(s) for s in SYMBOLS],
        "deviation_alphabet": {"disposal types": list(DISPOSAL_TYPES), "tz minutes": list(TZ_DEVS), "amount scales": list(SCALES), "price scales": list(PRICE_SCALES),
                               "new-year phase": "steps of one hour from 2020-12-31 18:00 UTC, one transaction in +09:00 / -05:00, schedules switching on 2021-01-01"},
        "phases": info,
        "per_depth": {k: v for k, v in sorted(total.counters.items()) if k.startswith("states_depth_")},
        "exhaustive": bool(complete),
        "violations_total": total.get("violations_total"),
        "known_finding_hits": matched,
        "samples": total.samples[:8],
    }
    common.write_evidence(
        PROP,
        tier,
        LEVEL,
        coverage,
        time.time() - t0,
        new,
        assumptions=[
            "histories outside the alphabet / deeper than the completed depth are not covered",
            "ties on the method's primary key (same instant for FIFO/LIFO, same price for HIFO/LOFO) are not ordered by the oracle",
            "in-transactions enter the engine in ascending row order, as parse_ods delivers them",
        ],
    )
    print(f"{PROP} {tier}: states={total.get('states')} transitions={total.get('transitions')} validated={total.get('traces_validated_against_impl')} "
          f"nontrivial={total.get('distinct_nontrivial')} violations={total.get('violations_total')} (unlisted {new}) exhaustive={complete} "
          f"wall={time.time() - t0:.1f}s")
    for i in info:
        print("  ", i)
    return 1 if new else 0


def replay(path: str) -> int:
    from rp2verif.lotrun import replay_compute

    return replay_compute(__name__, path)
