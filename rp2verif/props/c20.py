"""C20 - Japanese tax report: one sheet per asset-year, chained in year order.

Generator seam (rp2_jp plugin, -g en and the kl test locale). Per asset every assignment  year -> content  over a
small content menu (nothing, buy, sell, buy+sell, fee-bearing transfer, fee-less transfer, a purchase on Dec 31 in a
zone whose UTC date is already next year) is enumerated - sparse years, disposal-only years, years first seen out of
order across the IN / OUT / INTRA tables - crossed with second assets. The written file is read back: sheet set, rows
per sheet, summary lines and the opening-balance chain.
"""
from __future__ import annotations

import itertools
import re
import time
from datetime import datetime
from fractions import Fraction
from typing import Any, Dict, Iterator, List, Optional, Sequence, Tuple

from rp2verif import common
from rp2verif.common import Stats

PROP = "C20"
LEVEL = "exploration"

YEARS = (2019, 2020, 2021, 2022)
CONTENTS = ("-", "buy", "sell", "buy+sell", "move", "move0", "late-buy", "donate+move", "donate+income", "same-instant")
INCOME = {"AIRDROP", "HARDFORK", "INCOME", "INTEREST", "MINING", "STAKING", "WAGES"}


def content_rows(asset: str, year: int, content: str, n: int) -> List[Dict[str, Any]]:
    rows: List[Dict[str, Any]] = []
    if content in ("buy", "buy+sell"):
        rows.append({"table": "in", "timestamp": f"{year}-03-{1 + n % 9:02d} 10:00:00+00:00", "exchange": "X1", "holder": "H1", "transaction_type": "BUY",
                     "spot_price": str(100 + year % 100), "crypto_in": "4", "unique_id": f"{asset}-{year}-buy"})
    if content in ("sell", "buy+sell"):
        rows.append({"table": "out", "timestamp": f"{year}-06-{2 + n % 9:02d} 11:00:00+00:00", "exchange": "X2" if content == "sell" else "X1", "holder": "H1",
                     "transaction_type": "SELL", "spot_price": str(200 + year % 100), "crypto_out_no_fee": "1", "crypto_fee": "0.5", "unique_id": f"{asset}-{year}-sell"})
    if content in ("donate+move", "donate+income", "same-instant"):
        rows.append({"table": "out", "timestamp": f"{year}-05-{2 + n % 9:02d} 11:00:00+00:00", "exchange": "X1", "holder": "H1", "transaction_type": "DONATE",
                     "spot_price": str(300 + year % 100), "crypto_out_no_fee": "0.5", "crypto_fee": "0", "unique_id": f"{asset}-{year}-donate"})
        if content == "donate+income":
            rows.append({"table": "in", "timestamp": f"{year}-10-{4 + n % 9:02d} 10:00:00+00:00", "exchange": "X2", "holder": "H1", "transaction_type": "STAKING",
                         "spot_price": str(130 + year % 100), "crypto_in": "0.5", "unique_id": f"{asset}-{year}-staking"})
    if content in ("move", "move0", "donate+move"):
        rows.append({"table": "intra", "timestamp": f"{year}-09-{3 + n % 9:02d} 12:00:00+00:00", "from_exchange": "X1", "from_holder": "H1", "to_exchange": "X2",
                     "to_holder": "H1", "spot_price": str(150 + year % 100), "crypto_sent": "1", "crypto_received": "0.75" if content in ("move", "donate+move") else "1",
                     "unique_id": f"{asset}-{year}-move"})
    if content == "same-instant":
        # an income credit and a sale at the very same instant (written in two zones): both are rows of the year
        rows.append({"table": "in", "timestamp": f"{year}-04-{5 + n % 9:02d} 00:00:00+00:00", "exchange": "X2", "holder": "H1", "transaction_type": "INTEREST",
                     "spot_price": str(140 + year % 100), "crypto_in": "3", "unique_id": f"{asset}-{year}-interest"})
        rows.append({"table": "out", "timestamp": f"{year}-04-{5 + n % 9:02d} 09:00:00+09:00", "exchange": "X1", "holder": "H1", "transaction_type": "SELL",
                     "spot_price": str(240 + year % 100), "crypto_out_no_fee": "1", "crypto_fee": "0", "fiat_fee": "7.5", "unique_id": f"{asset}-{year}-sell0"})  # commission charged in yen
    if content == "late-buy":
        # 21:30 on Dec 31 at -05:00 is already Jan 1 in UTC: the transaction belongs to ITS OWN (local) year
        rows.append({"table": "in", "timestamp": f"{year}-12-31 21:30:00-05:00", "exchange": "X3", "holder": "H1", "transaction_type": "INTEREST",
                     "spot_price": str(120 + year % 100), "crypto_in": "2", "unique_id": f"{asset}-{year}-late"})
    return rows


def holdings_ok(pattern: Sequence[str]) -> bool:
    """Never dispose of more than what is held (disposals: sell 1.5, move 0.25), in time order within the pattern."""
    bal = Fraction(0)
    for c in pattern:
        if c in ("buy", "buy+sell"):
            bal += 4
        if c in ("sell", "buy+sell"):
            bal -= Fraction(3, 2)
        if c in ("donate+move", "donate+income", "same-instant"):
            bal -= Fraction(1, 2)
        if c in ("move", "donate+move"):
            bal -= Fraction(1, 4)
        if c == "late-buy":
            bal += 2
        if c == "same-instant":
            bal += 2
        if bal < 0:
            return False
        if c in ("move", "move0", "donate+move") and bal < 1:
            return False
        if c == "donate+income":
            bal += Fraction(1, 2)
    return True


def asset_specs(asset: str, pattern: Sequence[str], order: str) -> List[Dict[str, Any]]:
    """order: 'chrono' rows in time order per table; 'reverse' later years first (years are first SEEN out of order)."""
    rows: List[Dict[str, Any]] = []
    for i, (y, c) in enumerate(zip(YEARS, pattern)):
        rows += content_rows(asset, y, c, i)
    if order == "reverse":
        rows = list(reversed(rows))
    for k, r in enumerate(rows):
        r["row"] = k
        r["sym"] = ""
    return rows


SECOND = [("-", "buy", "sell", "-"), ("-", "-", "buy", "buy+sell"), ("buy", "-", "-", "sell"), ("late-buy", "sell", "-", "move")]


def patterns(tier: str) -> Iterator[Tuple[str, ...]]:
    seen = set()
    small = ("-", "buy", "sell", "move")
    for p in itertools.product(small, repeat=4):
        if any(c != "-" for c in p) and holdings_ok(p):
            seen.add(p)
            yield p
    menu = CONTENTS
    if tier == "quick":
        for p3 in itertools.product(menu, repeat=3):
            for p in ((p3 + ("-",)), (("-",) + p3)):
                if p not in seen and any(c != "-" for c in p) and holdings_ok(p):
                    seen.add(p)
                    yield p
    else:
        for p in itertools.product(menu, repeat=4):
            if p not in seen and any(c != "-" for c in p) and holdings_ok(p):
                seen.add(p)
                yield p


def build_case(p1: Tuple[str, ...], second: Optional[int], order: str, lang: str) -> Dict[str, Any]:
    from rp2verif import frdriver as D

    assets = {"B1": asset_specs("B1", p1, order)}
    if second is not None:
        assets["B2"] = asset_specs("B2", SECOND[second], "chrono" if order == "reverse" else "reverse")
    sheets = {}
    for a in list(assets):
        sheets[a], assets[a] = D.to_sheet(assets[a], a)
    return {"label": f"B1 {dict(zip(YEARS, p1))}" + (f" || B2 {dict(zip(YEARS, SECOND[second]))}" if second is not None else "") + f" [{order}, {lang}]",
            "pattern": list(p1), "second": second, "order": order,
            "assets": assets, "sheets": sheets, "schedule": [(1970, "fifo")], "from": None, "to": None, "country": "jp", "lang": lang,
            "reports": ["tax_report_jp"], "allow_negative": True}


def expected_rows(specs: Sequence[Dict[str, Any]], transfer_name: str) -> Dict[int, List[Dict[str, Any]]]:
    """Per (local) year the rows the sheet must list, in time order. Fee-less transfers move no value and are not rows."""
    out: Dict[int, List[Tuple[datetime, Dict[str, Any]]]] = {}
    for s in specs:
        ts = datetime.fromisoformat(s["timestamp"])
        spot = Fraction(s["spot_price"]) if s.get("spot_price") is not None else Fraction(0)
        row: Optional[Dict[str, Any]] = None
        if s["table"] == "in":
            amt = Fraction(s["crypto_in"])
            typ = s["transaction_type"].upper()
            row = {"month": ts.month, "day": ts.day, "client": s["exchange"], "type": typ, "buy": amt, "buy_yen": amt * spot,
                   "sell": Fraction(0) if typ in INCOME else None, "sell_yen": amt * spot if typ in INCOME else None,
                   "fee_yen": Fraction(s.get("crypto_fee") or 0) * spot if Fraction(s.get("crypto_fee") or 0) > 0 else Fraction(s.get("fiat_fee") or 0)}
        elif s["table"] == "out":
            amt, fee = Fraction(s["crypto_out_no_fee"]), Fraction(s.get("crypto_fee") or 0)
            row = {"month": ts.month, "day": ts.day, "client": s["exchange"], "type": s["transaction_type"].upper(), "buy": None, "buy_yen": None,
                   "sell": amt + fee, "sell_yen": amt * spot, "fee_yen": fee * spot if fee > 0 else Fraction(s.get("fiat_fee") or 0)}
            if row["type"] == "DONATE":
                # a donation is not a sale: the yen column shows 0 and, in brackets, the donated value
                row["sell_yen"] = f"0 (\uffe5{float(amt * spot):0,.2f})"
        else:
            fee = Fraction(s["crypto_sent"]) - Fraction(s["crypto_received"])
            if fee > 0:
                row = {"month": ts.month, "day": ts.day, "client": transfer_name, "type": "FEE", "buy": None, "buy_yen": None, "sell": fee, "sell_yen": fee * spot, "fee_yen": Fraction(0)}
        out.setdefault(ts.year, [])
        if row is not None:
            out[ts.year].append((ts, row))
    return {y: [r for _t, r in sorted(v, key=lambda x: x[0])] for y, v in out.items()}


_REF = re.compile(r"^='(?P<sheet>[^']+)'\.(?P<col>[A-Z]+)(?P<row>\d+)$")


def check(case: Dict[str, Any], res: Dict[str, Any]) -> Tuple[List[str], Dict[str, int]]:
    from rp2verif import odsread as O

    problems: List[str] = []
    counts = {"asset_year_sheets": 0, "chained_openings": 0, "rows": 0, "summary_lines": 0}
    f = next((n for n in res["files"] if n.endswith("tax_report_jp.ods")), None)
    if f is None:
        return [f"no tax_report_jp.ods written (files {list(res['files'])})"], counts
    files = res["files"][f]
    names = res["names"]
    fmt_sheet, fmt_summary, transfer = names.get("{}_{}", "{}_{}"), names.get("{}_Summary", "{}_Summary"), names.get("Transfer", "Transfer")
    want_sheets: Dict[str, Tuple[str, int]] = {}
    years_all = set()
    per_asset_years: Dict[str, List[int]] = {}
    rows_expected: Dict[Tuple[str, int], List[Dict[str, Any]]] = {}
    for asset in sorted(case["assets"]):
        exp = expected_rows(case["assets"][asset], transfer)
        per_asset_years[asset] = sorted(exp)
        for y, rows in exp.items():
            want_sheets[fmt_sheet.format(asset, y)] = (asset, y)
            rows_expected[(asset, y)] = rows
            years_all.add(y)
    want_summaries = {fmt_summary.format(y): y for y in years_all}
    got = [n for n in files if n != names.get("Legend", "Legend")]
    for n in want_sheets:
        if n not in files:
            problems.append(f"calculation sheet '{n}' missing (the asset has transactions in that year)")
    for n in want_summaries:
        if n not in files:
            problems.append(f"summary sheet '{n}' missing")
    for n in got:
        if n not in want_sheets and n not in want_summaries:
            problems.append(f"unexpected sheet '{n}' (no transaction of that asset / year)")
    if len(got) != len(set(got)):
        problems.append(f"duplicate sheet names {got}")
    # locate the balance block of every asset-year sheet
    anchor: Dict[str, int] = {}
    for n in want_sheets:
        rows = files.get(n)
        if rows is None:
            continue
        hits = [i for i, r in enumerate(rows) if isinstance(O.cell(rows, i, 5), O.Formula) and O.cell(rows, i, 5).text.startswith("=E13+E")]
        if len(hits) != 1:
            problems.append(f"sheet '{n}': balance block not found ({len(hits)} candidates)")
            continue
        anchor[n] = hits[0]
    for n, (asset, y) in sorted(want_sheets.items(), key=lambda kv: (kv[1][0], kv[1][1])):
        rows = files.get(n)
        if rows is None or n not in anchor:
            continue
        counts["asset_year_sheets"] += 1
        if O.plain(O.cell(rows, 1, 7)) != asset:
            problems.append(f"sheet '{n}': asset label is {O.plain(O.cell(rows, 1, 7))!r}")
        # transaction rows
        listed = []
        i = 21
        while i < len(rows) and isinstance(O.cell(rows, i, 3), str) and O.cell(rows, i, 3) != "":
            listed.append(i)
            i += 1
        exp = rows_expected[(asset, y)]
        if len(listed) != len(exp):
            problems.append(f"sheet '{n}': {len(listed)} transaction rows listed, {len(exp)} transactions with an amount in {y}")
        for i, w in zip(listed, exp):
            counts["rows"] += 1
            tag = f"sheet '{n}' row {i + 1} ({w['type']} {w['month']}/{w['day']})"
            for col, key in ((0, "month"), (1, "day")):
                if O.num(O.cell(rows, i, col)) != w[key]:
                    problems.append(f"{tag}: {key} {O.cell(rows, i, col)!r} != {w[key]}")
            for col, key in ((2, "client"), (3, "type")):
                if O.cell(rows, i, col) != w[key]:
                    problems.append(f"{tag}: {key} {O.cell(rows, i, col)!r} != {w[key]!r}")
            for col, key in ((4, "buy"), (5, "buy_yen"), (6, "sell"), (7, "sell_yen")):
                v = O.cell(rows, i, col)
                if w[key] is None:
                    if not O.is_blank(v):
                        problems.append(f"{tag}: {key} shows {v!r}, nothing expected")
                elif isinstance(w[key], str):
                    if v != w[key]:
                        problems.append(f"{tag}: {key} {v!r} != {w[key]!r}")
                elif not O.close(v, w[key]):
                    problems.append(f"{tag}: {key} {v!r} != {float(w[key])}")
            v = O.cell(rows, i, 8)
            if (w["fee_yen"] == 0 and not (O.is_blank(v) or O.num(v) == 0)) or (w["fee_yen"] != 0 and not O.close(v, w["fee_yen"])):
                problems.append(f"{tag}: fee in yen {v!r} != {float(w['fee_yen'])}")
        # opening balance chain
        r = anchor[n]
        earlier = [yy for yy in per_asset_years[asset] if yy < y]
        open_c, open_y = O.cell(rows, r, 4), O.cell(rows, r + 1, 4)
        if not earlier:
            for what, v in (("crypto", open_c), ("yen", open_y)):
                if isinstance(v, O.Formula) or O.num(v) != 0:
                    problems.append(f"sheet '{n}': opening {what} balance is {v.text if isinstance(v, O.Formula) else v!r}; {asset} has no earlier year, 0 expected")
        else:
            prev = fmt_sheet.format(asset, max(earlier))
            if prev in anchor:
                counts["chained_openings"] += 1
                for what, v, rr in (("crypto", open_c, anchor[prev] + 1), ("yen", open_y, anchor[prev] + 2)):
                    want = f"='{prev}'.I{rr}"
                    got_f = v.text if isinstance(v, O.Formula) else repr(v)
                    if got_f != want:
                        problems.append(f"sheet '{n}': opening {what} balance is {got_f}; the closing {what} balance of {asset}'s most recent earlier year is {want}")
    # summary sheets
    for n, y in sorted(want_summaries.items(), key=lambda kv: kv[1]):
        rows = files.get(n)
        if rows is None:
            continue
        lines = []
        i = 7
        while i < len(rows) and isinstance(O.cell(rows, i, 0), str) and isinstance(O.cell(rows, i, 3), O.Formula):
            lines.append(i)
            i += 1
        want_assets = [a for a in sorted(case["assets"]) if y in per_asset_years[a]]
        got_assets = [O.cell(rows, i, 0) for i in lines]
        if sorted(got_assets) != want_assets:
            problems.append(f"summary '{n}': lines for assets {got_assets}, assets with transactions in {y}: {want_assets}")
        for i in lines:
            counts["summary_lines"] += 1
            a = O.cell(rows, i, 0)
            sheet = fmt_sheet.format(a, y)
            for col in (3, 4, 5, 6):
                c = O.cell(rows, i, col)
                m = _REF.match(c.text) if isinstance(c, O.Formula) else None
                if not m or m.group("sheet") != sheet:
                    problems.append(f"summary '{n}' line {a} col {col}: {c.text if isinstance(c, O.Formula) else c!r} does not point into '{sheet}'")
                elif sheet in anchor and col in (4, 5):
                    want_row = anchor[sheet] + (1 if col == 4 else 2)
                    if m.group("col") != "I" or int(m.group("row")) != want_row:
                        problems.append(f"summary '{n}' line {a} col {col}: points at {m.group('col')}{m.group('row')}, the closing balance of '{sheet}' is I{want_row}")
    return problems, counts


def judge(st: Stats, case: Dict[str, Any]) -> None:
    from rp2verif.seams import generator as G

    st.inc("evaluations")
    run_case = dict(case)
    res = G.run(run_case)
    tag = case["label"]
    if case.get("bundled"):
        from rp2verif import frdriver as _D

        payload = {"full_case": True, "case": _D.jsonable(case)}
    else:
        payload = {"case": {k: case[k] for k in ("pattern", "second", "order", "lang", "label")}}
    if res["error"]:
        st.violation(dict(payload, signature=f"C20 no report: {res['stage']} / {res['error'].split(':')[0]} / {res.get('where', '')}", what=f"{tag} :: {res['stage']}: {res['error'][:200]}"))
        return
    problems, counts = check(case, res)
    for k, v in counts.items():
        st.inc(k, v)
    years = [y for y, c in zip(YEARS, case["pattern"]) if c != "-"]
    sparse = any(b - a > 1 for a, b in zip(years, years[1:])) or any(c in ("sell", "move", "donate+move") for c in case["pattern"])
    if sparse or case["second"] is not None:
        st.inc("distinct_nontrivial")
    if problems:
        first = problems[0]
        kind = ("opening balance chain" if "opening" in first else "summary" if first.startswith("summary") else "sheet set" if ("missing" in first or "unexpected" in first)
                else "rows")
        st.violation(dict(payload, signature=f"C20 {kind}", what=f"{tag} :: {first}", problems=problems[:6]))
    elif sparse:
        st.sample({"case": tag, **counts}, cap=1)


def cases(tier: str) -> List[Dict[str, Any]]:
    out = []
    for k, p in enumerate(patterns(tier)):
        seconds: Sequence[Optional[int]] = (None, 0, 1, 2, 3) if tier == "thorough" else (None, k % 4)
        for second in seconds:
            for order in (("chrono", "reverse") if tier == "thorough" else (("chrono", "reverse")[k % 2],)):
                lang = "kl" if (k % 5 == 0 and second is None) else "en"
                out.append(build_case(p, second, order, lang))
    # the data of the 9 inputs bundled with RP2 (up to 4 assets, several years each)
    from rp2verif import frdriver as D

    for c in D.bundled_cases(["tax_report_jp"], methods=("fifo",), mode="none", country="jp", lang="en"):
        out.append(dict(c, pattern=[], order="as in the file"))
    return out


def worker(chunk: List[Dict[str, Any]]) -> Stats:
    st = Stats()
    for c in chunk:
        judge(st, c)
    return st


def init() -> None:
    from rp2verif.props import c13

    c13.init()


def main(tier: str, budget_s: Optional[float] = None) -> int:
    t0 = time.time()
    deadline = t0 + (budget_s or (240 if tier == "quick" else 3000))
    all_cases = cases(tier)
    n = max(1, min(len(all_cases), common.NPROC * 8))
    chunks = [all_cases[i::n] for i in range(n)]
    results, done = common.pmap(worker, chunks, deadline=deadline, init=init)
    total = Stats()
    for r in results:
        if r is not None:
            total.merge(r)
    complete = done == len(chunks)
    new, matched = common.report(PROP, total.violations)
    coverage = {
        "evaluations": total.get("evaluations"),
        "distinct_nontrivial": total.get("distinct_nontrivial"),
        "cases_planned": len(all_cases),
        "asset_year_sheets_checked": total.get("asset_year_sheets"),
        "opening_balances_chained_to_an_earlier_sheet": total.get("chained_openings"),
        "transaction_rows_compared": total.get("rows"),
        "summary_lines_checked": total.get("summary_lines"),
        "rule": (
            "asset B1: every assignment year 2019..2022 -> {nothing, buy, sell, transfer with fee} that never over-spends, plus (quick) every 3-year / "
            "(thorough) every 4-year assignment over the 10-item menu (buy+sell, fee-less transfer, a Dec 31 purchase at -05:00, a donation followed by a fee-bearing transfer / by staking income); x second asset "
            "(none or one of 4 fixed patterns, rows in the opposite order) x row order (years first seen in / out of order) x language en / kl. One "
            "evaluation = one real tax_report_jp generation read back. non-trivial = sparse or disposal-only years, or two assets"
        ),
        "content_menu": list(CONTENTS),
        "exhaustive": bool(complete),
        "violations_total": total.get("violations_total"),
        "known_finding_hits": matched,
        "samples": total.samples[:5],
    }
    common.write_evidence(PROP, tier, LEVEL, coverage, time.time() - t0, new, assumptions=[
        "cells are located by the sheet's own structure (the '=E13+E..' purchases formula anchors the balance block); cross-sheet formulas are compared as text",
        "fee-less transfers carry no amount and are not expected as rows",
    ])
    print(f"{PROP} {tier}: evaluations={total.get('evaluations')} of {len(all_cases)} sheets={total.get('asset_year_sheets')} chained={total.get('chained_openings')} "
          f"rows={total.get('rows')} violations={total.get('violations_total')} (unlisted {new}) exhaustive={complete} wall={time.time() - t0:.1f}s")
    return 1 if new else 0


def replay(path: str) -> int:
    import json
    import multiprocessing as mp

    with open(path, encoding="utf-8") as f:
        p = json.load(f)
    c = p["case"]
    if p.get("full_case"):
        from rp2verif import frdriver as _D

        case = _D.from_json(c)
    else:
        case = build_case(tuple(c["pattern"]), c["second"], c["order"], c["lang"])
    ctx = mp.get_context("fork")
    with ctx.Pool(1, initializer=init) as pool:
        st = pool.apply(worker, ([case],))
    if st.violations:
        print(f"VIOLATION property={PROP} replay={path}\n  {st.violations[0]['what']}")
        return 1
    print(f"replay: {path}: property {PROP} holds on this case")
    return 0
