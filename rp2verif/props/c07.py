"""C07 - account balances equal the flows of each account and reconcile with unsold lots.

3-account prefix tree (2 exchanges x 2 holders) x to-dates x -n on/off; the BalanceSet of the real run is compared
with a reference replay, and the sum of final balances with what the lot matcher leaves unconsumed.
"""
from __future__ import annotations

import time
from datetime import date, timedelta
from fractions import Fraction
from typing import Any, Dict, List, Optional, Sequence, Tuple

from rp2verif import common
from rp2verif import history as H
from rp2verif.common import Stats
from rp2verif.lotrun import run_phases, sched_str
from rp2verif.lottree import History, Tree
from rp2verif.models import accounts as MA
from rp2verif.models.lots import F, parse_ts

PROP = "C07"
LEVEL = "exploration"

ACCTS = (0, 1, 2)  # (X1,H1) (X2,H1) (X1,H2)
SYMBOLS = (
    [H.B(1, 2, acct=a) for a in ACCTS]
    + [H.E(1, 1, acct=0)]
    + [H.S(n, acct=a) for a in ACCTS for n in (1, 2)]
    + [H.M(s, f, src=a, dst=b) for a in ACCTS for b in ACCTS if a != b for (s, f) in ((1, 0), (2, 0), (2, 1))]
    + [H.M(1, 0, src=0, dst=0), H.M(2, 1, src=0, dst=0)]  # transfer to self: accepted by RP2 with a warning
)
FIRST = [s for s in SYMBOLS if s[0] in ("B", "E")]
EXTRA = None
STEPS = ("=", "d")


def to_dates(specs: Sequence[Dict[str, Any]]) -> List[Optional[date]]:
    ev = sorted({parse_ts(s["timestamp"]).date() for s in specs})
    out: List[Optional[date]] = [None]
    for d in ev:
        out.append(d)
    out.append(ev[0] - timedelta(days=1))
    return out


def check_balances(specs: Sequence[Dict[str, Any]], computed: Any, td: Optional[date], reconcile: bool = True) -> List[str]:
    problems: List[str] = []
    want = MA.balances(specs, td)
    got: Dict[Tuple[str, str], Dict[str, Fraction]] = {}
    for b in computed.balance_set:
        key = (b.exchange, b.holder)
        if key in got:
            problems.append(f"account {key} listed more than once")
        got[key] = {"acquired": F(b.acquired_balance), "sent": F(b.sent_balance), "received": F(b.received_balance), "final": F(b.final_balance)}
    for k in want:
        if k not in got:
            problems.append(f"account {k} has transactions but no balance line")
    for k in got:
        if k not in want:
            problems.append(f"balance line for untouched account {k}")
    for k in want:
        if k in got:
            for f in ("acquired", "sent", "received", "final"):
                if got[k][f] != want[k][f]:
                    problems.append(f"account {k}: {f} balance {got[k][f]} != {want[k][f]} from its transactions")
    if not reconcile:
        return problems
    # reconciliation with the lot matcher: sum of final balances == acquired lots - consumed fractions (all dated <= to-date)
    total_final = sum((v["final"] for v in got.values()), Fraction(0))
    acquired = sum((F(t.crypto_in) for t in computed.in_transaction_set), Fraction(0))
    consumed = sum((F(g.crypto_amount) for g in computed.gain_loss_set if g.acquired_lot is not None), Fraction(0))
    if total_final != acquired - consumed:
        problems.append(f"sum of final balances {total_final} != amount left unconsumed in lots {acquired - consumed} (acquired {acquired}, consumed {consumed})")
    return problems


def worker(task: Tuple[Any, ...]) -> Stats:
    from rp2verif.seams import compute as C

    root, depth, schedules, steps, _dev, row_order = task[:6]
    tree = Tree(FIRST, SYMBOLS, steps, EXTRA)
    st = Stats()
    for hist in tree.level(root, depth):
        # dev == "dust": every amount x 1e-6, so that transfer fees are worth a fraction of a cent - they leave the account all the same
        variants = [(hist, H.materialize(hist, row_order=row_order, scale="1/1000000" if _dev == "dust" else 1))]
        if _dev == "tz":
            # every timestamp written at -05:00 (instants from 02:00 UTC: own date = the day before the UTC date) / at +09:00 (from 18:00 UTC:
            # own date = the day after): "up to the to-date" is decided by the own calendar date
            from datetime import datetime, timezone

            variants = []
            for tz in (-300, 540):
                h2 = tuple((it[0], it[1], tz) for it in hist)
                variants.append((h2, H.materialize(h2, row_order=row_order, base=datetime(2020, 3, 1, 18 if tz > 0 else 2, 0, 0, tzinfo=timezone.utc))))
        for h2, specs in variants:
            if specs is not None:
                st.merge(judge_history(h2, specs, schedules, from_dates=(_dev == "from")))
    return st


def bundled_worker(chunk: List[Tuple[str, str]]) -> Stats:
    """The inputs bundled with RP2, per asset sheet (4 exchanges x 2 holders): balances vs the reference replay, every to-date, -n off / on."""
    from rp2verif import bundled

    st = Stats()
    data = bundled.load()
    for fname, asset in chunk:
        st.inc("bundled_sheets")
        st.merge(judge_history((), data[fname][asset], [((1970, "fifo"),), ((1970, "hifo"),)], name=f"bundled input {fname}.ods, asset {asset}"))
    return st


def judge_history(hist: History, specs: List[Dict[str, Any]], schedules: Sequence[Any], name: Optional[str] = None, from_dates: bool = False) -> Stats:
    from rp2verif.seams import compute as C

    st = Stats()
    hs = name or H.hist_str(hist)
    verdict, _acct, _dip = MA.overdraft_verdict(specs)
    tds = to_dates(specs)
    touched = len({a for s in specs for a, _k, _v in MA.flows(s)})
    for sch in schedules:
        for neg in (False, True):
            if not neg and verdict != "must_accept":
                continue  # rejected (or may be rejected) without -n: C08's business
            for td in tds:
                st.inc("evaluations")
                st.inc(f"evaluations_depth_{len(hist)}")
                out = C.run_window(specs, sch, None, td, allow_negative_balances=neg)
                base = {"history": hs, "hist": hist, "specs": specs, "schedule": list(sch), "allow_negative": neg,
                        "to_date": str(td) if td else None}
                if not out.ok:
                    st.violation(dict(base, signature=f"C07 valid history rejected / {type(out.error).__name__}",
                                      what=f"{sched_str(sch)}{' -n' if neg else ''} -t {td}: {hs} :: {type(out.error).__name__}: {out.error}"))
                    continue
                problems = check_balances(specs, out.computed, td)
                if from_dates and not problems and not neg:
                    # a from-date only hides rows: balances still run from the beginning of the history up to the to-date
                    for fd in sorted({parse_ts(s2["timestamp"]).date() for s2 in specs} | {max(parse_ts(s2["timestamp"]).date() for s2 in specs) + timedelta(days=1)}):
                        if td is not None and fd > td:
                            continue
                        st.inc("evaluations")
                        st.inc("from_date_runs")
                        fout = C.run_window(specs, sch, fd, td, allow_negative_balances=neg)
                        if not fout.ok:
                            problems = [f"rejected with -f {fd}: {type(fout.error).__name__}: {fout.error}"]
                            break
                        problems = [f"with -f {fd}: {x}" for x in check_balances(specs, fout.computed, td, reconcile=False)]
                        if problems:
                            break
                if touched >= 2:
                    st.inc("distinct_nontrivial")
                if problems:
                    st.violation(dict(base, signature=f"C07 balances / {problems[0].split(':')[-1].strip().split(' ')[0] if 'account' in problems[0] else problems[0][:30]}",
                                      what=f"{sched_str(sch)}{' -n' if neg else ''} -t {td}: {hs} :: {problems[0]}", problems=problems))
                elif touched >= 3 and td is None:
                    st.sample({"history": hs, "schedule": sched_str(sch), "allow_negative": neg,
                               "balances": {f"{b.exchange}/{b.holder}": str(b.final_balance) for b in out.computed.balance_set}}, cap=1)
    return st


# ------------------------------------------------------------------------------------------------------------------
# per-holder totals exist only in the report: 'Account Balances' of '<asset> Tax' read back from rp2_full_report.ods


def report_histories(tier: str) -> List[History]:
    """Every node of depth <= 2, and every node of depth 3 (thorough: all; quick: those touching all three accounts,
    where one holder's accounts are not adjacent in the report's account order)."""
    tree = Tree(FIRST, SYMBOLS, STEPS, EXTRA)
    out: List[History] = []
    for depth in (1, 2, 3):
        for root in tree.roots(depth):
            for hist in tree.level(root, depth):
                specs = H.materialize(hist)
                if specs is None or MA.overdraft_verdict(specs)[0] != "must_accept":
                    continue
                touched = len({a for s in specs for a, _k, _v in MA.flows(s)})
                if depth < 3 or touched >= 3 or tier == "thorough":
                    out.append(hist)
    return out + FEE_FILLS


# purchases whose fee was paid in crypto (the parser turns each fee into an artificial disposal): two of them at the same instant,
# rows without unique id (e.g. two partial fills of one order)
FEE_FILLS: List[History] = [
    ((H.B(1, 2, fee="1/8"), "="), (H.B(1, 2, fee="1/4"), "="), (H.S(1), "d")),
    ((H.B(2, 1, acct=1, fee="1/8"), "="), (H.B(1, 2, acct=1, fee="1/8"), "="), (H.M(1, 0, src=1, dst=0), "d"), (H.B(1, 1, fee="1/2"), "=")),
    ((H.B(1, 2, fee="1/8"), "="), (H.B(1, 2, acct=2, fee="1/8"), "="), (H.B(3, 1, fee="1/8"), "d"), (H.B(3, 1, fee="1/16"), "=")),
]


def report_worker(chunk: List[History]) -> Stats:
    from rp2verif import frdriver as D
    from rp2verif import odsread as O
    from rp2verif.seams import generator as G

    st = Stats()
    for hist in chunk:
        fills = hist in FEE_FILLS
        specs = H.materialize(hist, uid=not fills)
        if specs is None:
            continue
        matrix, specs2 = D.to_sheet(specs, "B1")
        ev = sorted({parse_ts(s["timestamp"]).date() for s in specs})
        for td in (None, ev[0]) if len(ev) > 1 else (None,):
            case = {"assets": {"B1": specs2}, "sheets": {"B1": matrix}, "schedule": [(1970, "fifo")], "from": None, "to": td, "country": "us", "lang": "en",
                    "reports": ["rp2_full_report"], "allow_negative": False}
            st.inc("report_runs")
            res = G.run(case)
            base = {"history": H.hist_str(hist), "hist": hist, "specs": specs, "schedule": [(1970, "fifo")], "allow_negative": False, "to_date": str(td) if td else None, "report": True}
            tag = f"rp2_full_report -t {td}: {H.hist_str(hist)}"
            if res["error"]:
                st.violation(dict(base, signature=f"C07 report: no report / {res['error'].split(':')[0]}", what=f"{tag} :: {res['stage']}: {res['error'][:200]}"))
                continue
            f = next(n for n in res["files"] if n.endswith("rp2_full_report.ods"))
            rows = res["files"][f].get("B1 Tax") or []
            hits = O.find_rows(rows, "Account Balances")
            if len(hits) != 1:
                st.violation(dict(base, signature="C07 report: no Account Balances table", what=f"{tag} :: table not found"))
                continue
            _s, idx = O.table_after(rows, hits[0], key_col=0)
            want = MA.balances(specs, td)
            got_acct = {(O.cell(rows, i, 0), O.cell(rows, i, 1)): i for i in idx if O.cell(rows, i, 0) != "Total"}
            got_tot = {O.cell(rows, i, 1): O.cell(rows, i, 6) for i in idx if O.cell(rows, i, 0) == "Total"}
            problems: List[str] = []
            if sorted(got_acct) != sorted(want):
                problems.append(f"account lines {sorted(got_acct)} != accounts with transactions {sorted(want)}")
            for k, i in got_acct.items():
                if k in want:
                    for col, fld in ((3, "acquired"), (4, "sent"), (5, "received"), (6, "final")):
                        if not O.close(O.cell(rows, i, col), want[k][fld]):
                            problems.append(f"account {k}: {fld} balance {O.cell(rows, i, col)!r} != {float(want[k][fld])} from its transactions")
            holders: Dict[str, Fraction] = {}
            for (ex, ho), v in want.items():
                holders[ho] = holders.get(ho, Fraction(0)) + v["final"]
            if sorted(got_tot) != sorted(holders) or len([i for i in idx if O.cell(rows, i, 0) == "Total"]) != len(holders):
                problems.append(f"holder totals for {sorted(got_tot)}, holders with accounts {sorted(holders)}")
            for ho, v in holders.items():
                if ho in got_tot and not O.close(got_tot[ho], v):
                    problems.append(f"total of holder {ho} is {got_tot[ho]!r}; the holder's accounts add up to {float(v)}")
            if len(holders) >= 2:
                st.inc("report_multi_holder")
            if problems:
                st.violation(dict(base, signature=f"C07 report: {problems[0].split(' ')[0]} {problems[0].split(' ')[1]}", what=f"{tag} :: {problems[0]}", problems=problems[:6]))
    return st


def report_init() -> None:
    from rp2verif.props import c13

    c13.init()


def plan(tier: str) -> List[Dict[str, Any]]:
    if tier == "quick":
        return [{"name": "3 accounts", "schedules": [((1970, "fifo"),), ((1970, "hifo"),)], "steps": STEPS, "depth": 3, "dev": 0, "group": 1},
                {"name": "3 accounts, lifo (depth 2)", "schedules": [((1970, "lifo"),)], "steps": STEPS, "depth": 2, "dev": 0, "group": 1},
                {"name": "3 accounts, dust-sized amounts (x 1e-6)", "schedules": [((1970, "fifo"),)], "steps": ("d",), "depth": 3, "dev": "dust", "group": 1},
                {"name": "3 accounts, every timestamp at -05:00 / +09:00 (own date != UTC date)", "schedules": [((1970, "fifo"),)], "steps": ("d",), "depth": 3, "dev": "tz", "group": 1},
                {"name": "3 accounts, every from-date x every to-date (a from-date never changes a balance)", "schedules": [((1970, "fifo"),)], "steps": ("d",), "depth": 3, "dev": "from", "group": 1}]
    return [{"name": "3 accounts", "schedules": [((1970, "fifo"),), ((1970, "hifo"),)], "steps": STEPS, "depth": 3, "dev": 0, "group": 1},
            {"name": "3 accounts, dust-sized amounts (x 1e-6)", "schedules": [((1970, "fifo"),), ((1970, "hifo"),)], "steps": STEPS, "depth": 3, "dev": "dust", "group": 1},
            {"name": "3 accounts, every timestamp at -05:00 / +09:00 (own date != UTC date)", "schedules": [((1970, "fifo"),), ((1970, "hifo"),)], "steps": STEPS, "depth": 3, "dev": "tz", "group": 1},
            {"name": "3 accounts, every from-date x every to-date (a from-date never changes a balance)", "schedules": [((1970, "fifo"),), ((1970, "hifo"),)], "steps": STEPS, "depth": 3, "dev": "from", "group": 1},
            {"name": "3 accounts, depth 4", "schedules": [((1970, "fifo"),)], "steps": STEPS, "depth": 4, "dev": 0, "group": 1, "from_depth": 4}]


def main(tier: str, budget_s: Optional[float] = None) -> int:
    t0 = time.time()
    deadline = t0 + (budget_s or (240 if tier == "quick" else 3000))
    total, info, complete = run_phases(plan(tier), worker, FIRST, SYMBOLS, EXTRA, deadline, by_depth=True)
    from rp2verif import bundled as _B

    bt = _B.sheets()
    tb = time.time()
    bres, bdone = common.pmap(bundled_worker, [[x] for x in bt], deadline=max(deadline, time.time() + 60))
    for r in bres:
        if r is not None:
            total.merge(r)
    complete = complete and bdone == len(bt)
    info.append({"phase": "inputs bundled with RP2: every asset sheet of the 9 files x fifo / hifo x every to-date x -n off / on", "asset_sheets": len(bt),
                 "executions": total.get("bundled_sheets"), "wall_s": round(time.time() - tb, 1)})
    hs = report_histories(tier)
    nchunks = max(1, min(len(hs), common.NPROC * 8))
    rres, rdone = common.pmap(report_worker, [hs[i::nchunks] for i in range(nchunks)], deadline=deadline, init=report_init)
    rtotal = Stats()
    for r in rres:
        if r is not None:
            rtotal.merge(r)
    total.merge(rtotal)
    total.inc("evaluations", rtotal.get("report_runs"))
    total.inc("distinct_nontrivial", rtotal.get("report_multi_holder"))
    complete = complete and rdone == nchunks
    info.append({"phase": "report read-back: Account Balances table and per-holder totals of rp2_full_report.ods", "histories": len(hs), "report_runs": rtotal.get("report_runs"),
                 "runs_with_two_holders": rtotal.get("report_multi_holder"), "chunks_done": rdone, "chunks": nchunks})
    new, matched = common.report(PROP, total.violations)
    coverage = {
        "evaluations": total.get("evaluations"),
        "distinct_nontrivial": total.get("distinct_nontrivial"),
        "rule": (
            "every node of the 3-account prefix tree (30 symbols: buys, income, sales, transfers with and without fee between all ordered "
            "account pairs) x method x -n off (only histories no ordering of which overdraws an account) / on (all) x every to-date on a "
            "transaction day, before the first one, or none; distinct by construction; non-trivial = >= 2 accounts touched"
        ),
        "alphabet": [H.sym_str(s) for s in SYMBOLS],
        "steps": list(STEPS),
        "phases": info,
        "per_depth": {k: v for k, v in sorted(total.counters.items()) if k.startswith("evaluations_depth_")},
        "exhaustive": bool(complete),
        "violations_total": total.get("violations_total"),
        "known_finding_hits": matched,
        "samples": total.samples[:5],
    }
    common.write_evidence(PROP, tier, LEVEL, coverage, time.time() - t0, new, assumptions=[
        "per-holder totals exist only in the report: the 'Account Balances' table of rp2_full_report.ods is generated and read back for every node of depth <= 2 and the three-account nodes of depth 3",
    ])
    print(f"{PROP} {tier}: evaluations={total.get('evaluations')} nontrivial={total.get('distinct_nontrivial')} violations={total.get('violations_total')} "
          f"(unlisted {new}) exhaustive={complete} wall={time.time() - t0:.1f}s")
    for i in info:
        print("  ", i)
    return 1 if new else 0


def replay(path: str) -> int:
    import json

    from rp2verif.seams import compute as C

    with open(path, encoding="utf-8") as f:
        p = json.load(f)
    td = date.fromisoformat(p["to_date"]) if p.get("to_date") else None
    if p.get("report"):
        import multiprocessing as mp

        from rp2verif.lotrun import _to_tuple

        with mp.get_context("fork").Pool(1, initializer=report_init) as pool:
            st = pool.apply(report_worker, ([_to_tuple(p["hist"])],))
        if st.violations:
            print(f"VIOLATION property={PROP} replay={path}\n  {st.violations[0]['what']}")
            return 1
        print(f"replay: {path}: property {PROP} holds on this case")
        return 0
    out = C.run_window(p["specs"], [tuple(x) for x in p["schedule"]], None, td, allow_negative_balances=p["allow_negative"])
    problems = [f"{type(out.error).__name__}: {out.error}"] if not out.ok else check_balances(p["specs"], out.computed, td)
    if not problems:
        # the case may come from the from-date phase: the whole node again, with every from-date
        from rp2verif.lotrun import _to_tuple

        st = judge_history(_to_tuple(p["hist"]), p["specs"], [[tuple(x) for x in p["schedule"]]], from_dates=True)
        problems = [v["what"] for v in st.violations]
    if problems:
        print(f"VIOLATION property={PROP} replay={path}\n  {problems[0]}")
        return 1
    print(f"replay: {path}: property {PROP} holds on this case")
    return 0
