"""C07 - account balances equal the flows of each account and reconcile with unsold lots.

3-account prefix tree (2 exchanges x 2 holders) x to-dates x -n on/off; the BalanceSet of the real run is compared
with a reference replay, and the sum of final balances with what the lot matcher leaves unconsumed.
"""
from __future__ import annotations

import time
from datetime import date, timedelta
from fractions import Fraction
from typing import Any, Dict, List, Optional, Sequence, Tuple

from rp2verif import common
from rp2verif import history as H
from rp2verif.common import Stats
from rp2verif.lotrun import run_phases, sched_str
from rp2verif.lottree import History, Tree
from rp2verif.models import accounts as MA
from rp2verif.models.lots import F, parse_ts

PROP = "C07"
LEVEL = "exploration"

ACCTS = (0, 1, 2)  # (X1,H1) (X2,H1) (X1,H2)
SYMBOLS = (
    [H.B(1, 2, acct=a) for a in ACCTS]
    + [H.E(1, 1, acct=0)]
    + [H.S(n, acct=a) for a in ACCTS for n in (1, 2)]
    + [H.M(s, f, src=a, dst=b) for a in ACCTS for b in ACCTS if a != b for (s, f) in ((1, 0), (2, 0), (2, 1))]
    + [H.M(1, 0, src=0, dst=0), H.M(2, 1, src=0, dst=0)]  # transfer to self: accepted by RP2 with a warning
)
FIRST = [s for s in SYMBOLS if s[0] in ("B", "E")]
EXTRA = None
STEPS = ("=", "d")


def to_dates(specs: Sequence[Dict[str, Any]]) -> List[Optional[date]]:
    ev = sorted({parse_ts(s["timestamp"]).date() for s in specs})
    out: List[Optional[date]] = [None]
    for d in ev:
        out.append(d)
    out.append(ev[0] - timedelta(days=1))
    return out


def check_balances(specs: Sequence[Dict[str, Any]], computed: Any, td: Optional[date]) -> List[str]:
    problems: List[str] = []
    want = MA.balances(specs, td)
    got: Dict[Tuple[str, str], Dict[str, Fraction]] = {}
    for b in computed.balance_set:
        key = (b.exchange, b.holder)
        if key in got:
            problems.append(f"account {key} listed more than once")
        got[key] = {"acquired": F(b.acquired_balance), "sent": F(b.sent_balance), "received": F(b.received_balance), "final": F(b.final_balance)}
    for k in want:
        if k not in got:
            problems.append(f"account {k} has transactions but no balance line")
    for k in got:
        if k not in want:
            problems.append(f"balance line for untouched account {k}")
    for k in want:
        if k in got:
            for f in ("acquired", "sent", "received", "final"):
                if got[k][f] != want[k][f]:
                    problems.append(f"account {k}: {f} balance {got[k][f]} != {want[k][f]} from its transactions")
    # reconciliation with the lot matcher: sum of final balances == acquired lots - consumed fractions (all dated <= to-date)
    total_final = sum((v["final"] for v in got.values()), Fraction(0))
    acquired = sum((F(t.crypto_in) for t in computed.in_transaction_set), Fraction(0))
    consumed = sum((F(g.crypto_amount) for g in computed.gain_loss_set if g.acquired_lot is not None), Fraction(0))
    if total_final != acquired - consumed:
        problems.append(f"sum of final balances {total_final} != amount left unconsumed in lots {acquired - consumed} (acquired {acquired}, consumed {consumed})")
    return problems


def worker(task: Tuple[Any, ...]) -> Stats:
    from rp2verif.seams import compute as C

    root, depth, schedules, steps, _dev, row_order = task[:6]
    tree = Tree(FIRST, SYMBOLS, steps, EXTRA)
    st = Stats()
    for hist in tree.level(root, depth):
        specs = H.materialize(hist, row_order=row_order)
        if specs is None:
            continue
        verdict, _acct, _dip = MA.overdraft_verdict(specs)
        tds = to_dates(specs)
        touched = len({a for s in specs for a, _k, _v in MA.flows(s)})
        for sch in schedules:
            for neg in (False, True):
                if not neg and verdict != "must_accept":
                    continue  # rejected (or may be rejected) without -n: C08's business
                for td in tds:
                    st.inc("evaluations")
                    st.inc(f"evaluations_depth_{len(hist)}")
                    out = C.run_window(specs, sch, None, td, allow_negative_balances=neg)
                    base = {"history": H.hist_str(hist), "hist": hist, "specs": specs, "schedule": list(sch), "allow_negative": neg,
                            "to_date": str(td) if td else None}
                    if not out.ok:
                        st.violation(dict(base, signature=f"C07 valid history rejected / {type(out.error).__name__}",
                                          what=f"{sched_str(sch)}{' -n' if neg else ''} -t {td}: {H.hist_str(hist)} :: {type(out.error).__name__}: {out.error}"))
                        continue
                    problems = check_balances(specs, out.computed, td)
                    if touched >= 2:
                        st.inc("distinct_nontrivial")
                    if problems:
                        st.violation(dict(base, signature=f"C07 balances / {problems[0].split(':')[-1].strip().split(' ')[0] if 'account' in problems[0] else problems[0][:30]}",
                                          what=f"{sched_str(sch)}{' -n' if neg else ''} -t {td}: {H.hist_str(hist)} :: {problems[0]}", problems=problems))
                    elif touched >= 3 and td is None:
                        st.sample({"history": H.hist_str(hist), "schedule": sched_str(sch), "allow_negative": neg,
                                   "balances": {f"{b.exchange}/{b.holder}": str(b.final_balance) for b in out.computed.balance_set}}, cap=1)
    return st


def plan(tier: str) -> List[Dict[str, Any]]:
    if tier == "quick":
        return [{"name": "3 accounts", "schedules": [((1970, "fifo"),), ((1970, "hifo"),)], "steps": STEPS, "depth": 3, "dev": 0, "group": 1},
                {"name": "3 accounts, lifo (depth 2)", "schedules": [((1970, "lifo"),)], "steps": STEPS, "depth": 2, "dev": 0, "group": 1}]
    return [{"name": "3 accounts", "schedules": [((1970, "fifo"),), ((1970, "hifo"),)], "steps": STEPS, "depth": 3, "dev": 0, "group": 1},
            {"name": "3 accounts, depth 4", "schedules": [((1970, "fifo"),)], "steps": STEPS, "depth": 4, "dev": 0, "group": 1, "from_depth": 4}]


def main(tier: str, budget_s: Optional[float] = None) -> int:
    t0 = time.time()
    deadline = t0 + (budget_s or (240 if tier == "quick" else 3000))
    total, info, complete = run_phases(plan(tier), worker, FIRST, SYMBOLS, EXTRA, deadline)
    new, matched = common.report(PROP, total.violations)
    coverage = {
        "evaluations": total.get("evaluations"),
        "distinct_nontrivial": total.get("distinct_nontrivial"),
        "rule": (
            "every node of the 3-account prefix tree (30 symbols: buys, income, sales, transfers with and without fee between all ordered "
            "account pairs) x method x -n off (only histories no ordering of which overdraws an account) / on (all) x every to-date on a "
            "transaction day, before the first one, or none; distinct by construction; non-trivial = >= 2 accounts touched"
        ),
        "alphabet": [H.sym_str(s) for s in SYMBOLS],
        "steps": list(STEPS),
        "phases": info,
        "per_depth": {k: v for k, v in sorted(total.counters.items()) if k.startswith("evaluations_depth_")},
        "exhaustive": bool(complete),
        "violations_total": total.get("violations_total"),
        "known_finding_hits": matched,
        "samples": total.samples[:5],
    }
    common.write_evidence(PROP, tier, LEVEL, coverage, time.time() - t0, new, assumptions=[
        "per-holder totals exist only in the report; they are read back from rp2_full_report.ods by C13's oracle, not here",
    ])
    print(f"{PROP} {tier}: evaluations={total.get('evaluations')} nontrivial={total.get('distinct_nontrivial')} violations={total.get('violations_total')} "
          f"(unlisted {new}) exhaustive={complete} wall={time.time() - t0:.1f}s")
    for i in info:
        print("  ", i)
    return 1 if new else 0


def replay(path: str) -> int:
    import json

    from rp2verif.seams import compute as C

    with open(path, encoding="utf-8") as f:
        p = json.load(f)
    td = date.fromisoformat(p["to_date"]) if p.get("to_date") else None
    out = C.run_window(p["specs"], [tuple(x) for x in p["schedule"]], None, td, allow_negative_balances=p["allow_negative"])
    problems = [f"{type(out.error).__name__}: {out.error}"] if not out.ok else check_balances(p["specs"], out.computed, td)
    if problems:
        print(f"VIOLATION property={PROP} replay={path}\n  {problems[0]}")
        return 1
    print(f"replay: {path}: property {PROP} holds on this case")
    return 0
