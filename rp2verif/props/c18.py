"""C18 - no network, no subprocess, writes confined to the output and log directories.

Dynamic half: real CLI runs (fresh interpreters) of every entry point on valid and invalid inputs, each under a
sys.addaudithook installed before the first rp2 import and bracketed by a snapshot (sha256 of every file) of the whole
private directory tree: <root>/in (inputs), <root>/cwd (where ./log appears), <root>/out. Every case runs TWICE into
the same output directory (the second run meets existing reports).
Static half: every module under <repo>/src/rp2 is parsed; its imports and a few call names are checked against a
deny-list (a finite enumeration of the package, syntactic).
"""
from __future__ import annotations

import ast
import hashlib
import os
import time
from datetime import date
from typing import Any, Dict, List, Optional, Sequence, Tuple

from rp2verif import clishapes as CS
from rp2verif import common
from rp2verif.common import Stats

PROP = "C18"
LEVEL = "exploration"

DENY_IMPORTS = {"socket", "ssl", "http", "urllib", "urllib2", "urllib3", "requests", "httpx", "aiohttp", "ftplib", "smtplib", "poplib", "imaplib", "nntplib", "telnetlib",
                "xmlrpc", "socketserver", "asyncio", "subprocess", "multiprocessing", "pty", "webbrowser", "ctypes", "paramiko", "pycurl", "websocket", "websockets", "grpc",
                "selectors", "select", "shlex", "pexpect", "sh", "smtpd", "cgi", "wsgiref", "dbm", "sqlite3", "pickle", "marshal", "shelve"}
DENY_CALLS = {("os", "system"), ("os", "popen"), ("os", "execv"), ("os", "execve"), ("os", "execl"), ("os", "execvp"), ("os", "spawnl"), ("os", "spawnv"), ("os", "posix_spawn"),
              ("os", "fork"), ("os", "startfile"), ("platform", "platform"), ("platform", "uname"), ("platform", "processor"), ("platform", "node"),
              ("getpass", "getuser"), ("socket", "gethostname")}
GENERIC_ENV = {"CURRENCY_CODE": "usd", "LONG_TERM_CAPITAL_GAINS": "365"}


# ------------------------------------------------------------------------------------------------------------------
# static half


def static_walk() -> Tuple[Dict[str, int], List[Dict[str, Any]]]:
    root = os.path.join(common.REPO, "src", "rp2")
    counts = {"modules": 0, "import_statements": 0, "calls_inspected": 0}
    violations: List[Dict[str, Any]] = []
    for dirpath, _dirs, files in sorted(os.walk(root)):
        for fn in sorted(files):
            if not fn.endswith(".py"):
                continue
            path = os.path.join(dirpath, fn)
            rel = os.path.relpath(path, os.path.join(common.REPO, "src"))
            counts["modules"] += 1
            with open(path, encoding="utf-8") as f:
                tree = ast.parse(f.read(), filename=path)
            for node in ast.walk(tree):
                names: List[str] = []
                if isinstance(node, ast.Import):
                    names = [a.name for a in node.names]
                elif isinstance(node, ast.ImportFrom):
                    names = [node.module or ""]
                if names:
                    counts["import_statements"] += 1
                    for n in names:
                        top = n.split(".")[0]
                        if top in DENY_IMPORTS:
                            violations.append({"kind": "static", "module": rel, "line": node.lineno, "signature": f"C18 static: import of {top}",
                                               "what": f"{rel}:{node.lineno} imports '{n}' (networking / process / persistence facility)"})
                if isinstance(node, ast.Call):
                    counts["calls_inspected"] += 1
                    f2 = node.func
                    if isinstance(f2, ast.Attribute) and isinstance(f2.value, ast.Name) and (f2.value.id, f2.attr) in DENY_CALLS:
                        violations.append({"kind": "static", "module": rel, "line": node.lineno, "signature": f"C18 static: call of {f2.value.id}.{f2.attr}",
                                           "what": f"{rel}:{node.lineno} calls {f2.value.id}.{f2.attr}() (spawns a process or asks the host / network)"})
                    if isinstance(f2, ast.Name) and f2.id in ("eval", "exec", "__import__"):
                        violations.append({"kind": "static", "module": rel, "line": node.lineno, "signature": f"C18 static: call of {f2.id}",
                                           "what": f"{rel}:{node.lineno} calls {f2.id}()"})
    return counts, violations


# ------------------------------------------------------------------------------------------------------------------
# dynamic half


def snapshot(root: str) -> Dict[str, str]:
    out: Dict[str, str] = {}
    for dirpath, dirs, files in os.walk(root):
        for d in dirs:
            out[os.path.relpath(os.path.join(dirpath, d), root) + "/"] = "dir"
        for fn in files:
            p = os.path.join(dirpath, fn)
            try:
                with open(p, "rb") as f:
                    out[os.path.relpath(p, root)] = hashlib.sha256(f.read()).hexdigest()
            except OSError:
                out[os.path.relpath(p, root)] = "unreadable"
    return out


def dynamic_cases(tier: str) -> List[Dict[str, Any]]:
    from rp2verif.props import c12

    shapes = CS.shapes()
    out: List[Dict[str, Any]] = []
    valid_shapes = ["multi", "all_types", "transfers"] if tier == "quick" else sorted(shapes)
    configs = [("us", []), ("us", ["-m", "hifo"]), ("us", ["-m", "lifo", "-g", "en"]), ("jp", []), ("jp", ["-g", "en"]), ("jp", ["-g", "kl", "-m", "fifo"]), ("es", []), ("es", ["-g", "es"]),
               ("ie", []), ("ie", ["-m", "fifo"]), ("generic", []), ("generic", ["-m", "lofo"])]
    for name in valid_shapes:
        shape = shapes[name]
        ds = CS.filter_dates(shape)
        filters: List[List[str]] = [[], ["-f", ds[len(ds) // 2].isoformat()], ["-t", ds[len(ds) // 2].isoformat()], ["-p", "pre_", "-a", sorted(shape)[0]]]
        for cc, opts in configs:
            for fl in (filters if tier == "thorough" or cc in ("us", "jp") else filters[:2]):
                out.append({"kind": "valid", "country": cc, "opts": opts + fl, "shape": name, "ini": CS.ini_for(shape), "sheets": CS.matrices(shape)})
        out.append({"kind": "valid", "country": "us", "opts": [], "shape": name, "ini": CS.ini_for(shape, methods={2015: "fifo", 2021: "hifo"}), "sheets": CS.matrices(shape)})
        # the two environment switches RP2 reads: debug logging and the profiler
        out.append({"kind": "valid", "country": "us", "opts": ["-m", "lifo"], "shape": name, "ini": CS.ini_for(shape), "sheets": CS.matrices(shape), "env": {"LOG_LEVEL": "DEBUG"}})
        out.append({"kind": "valid", "country": "jp", "opts": ["-g", "en"], "shape": name, "ini": CS.ini_for(shape), "sheets": CS.matrices(shape), "env": {"RP2_ENABLE_PROFILER": "1"}})
        out.append({"kind": "valid", "country": "es", "opts": [], "shape": name, "ini": CS.ini_for(shape), "sheets": CS.matrices(shape), "env": {"LOG_LEVEL": "DEBUG", "RP2_ENABLE_PROFILER": "1"}})
    # invalid inputs: every command-line / config / structure / field fault of C12's end-to-end list (they end in the fatal-error paths)
    bad = c12.cli_cases("quick")
    if tier == "quick":
        keep = []
        seen = set()
        for c in bad:
            cls = c["why"].split(":")[0] + ("/" + c["fault"]["table"] if c.get("fault") else "")
            if cls in seen and c.get("fault"):
                continue
            seen.add(cls)
            keep.append(c)
        bad = keep
    for c in bad:
        out.append({"kind": "invalid", "country": c.get("country", "us"), "opts": list(c.get("extra", [])) + list(c["opts"]), "shape": c["why"], "ini": c["ini"], "sheets": c["sheets"],
                    "input_name": c.get("input_name"), "config_name": c.get("config_name"), "env": {"LOG_LEVEL": "DEBUG"} if len(out) % 5 == 0 else None})
    # deprecated JSON configurations (rejected with a hint): also with every optional key, lists included
    shape = shapes["single"]
    for extra in ({}, {"generators": ["rp2_full_report", "open_positions"]}, {"generators": [], "accounting_methods": {"2020": "fifo"}}):
        import json as _json

        cfg = dict({"in_header": {"timestamp": 0, "asset": 1}, "out_header": {"timestamp": 0}, "intra_header": {"timestamp": 0}, "assets": ["B1"], "exchanges": ["X1"], "holders": ["H1"]},
                   **extra)
        out.append({"kind": "invalid", "country": "us", "opts": [], "shape": f"config: deprecated JSON format {sorted(extra)}", "ini": _json.dumps(cfg), "sheets": CS.matrices(shape)})
    for i, c in enumerate(out):
        c["id"] = i
    return out


def resolve(path: str, cwd: str, follow_last: bool = True) -> str:
    """Where an operation on `path` lands. Opening a file follows a symbolic link in the last component; removing or renaming works on the
    directory entry itself."""
    p = path if os.path.isabs(path) else os.path.join(cwd, path)
    if follow_last:
        return os.path.realpath(p)
    return os.path.join(os.path.realpath(os.path.dirname(p)), os.path.basename(p))


def judge(st: Stats, case: Dict[str, Any]) -> None:
    from rp2verif.seams import cli

    ws = cli.Workspace(f"c18-{case['id']}")
    try:
        ini = ws.write("config.ini", case["ini"])
        ods = cli.write_ods(os.path.join(ws.inp, "input.ods"), case["sheets"])
        if case.get("input_name") == "garbage.ods":
            ods = ws.write("garbage.ods", "this is not a zip archive")
        elif case.get("input_name") == "input.xlsx":
            os.rename(ods, os.path.join(ws.inp, "input.xlsx"))
            ods = os.path.join(ws.inp, "input.xlsx")
        elif case.get("input_name"):
            ods = os.path.join(ws.inp, case["input_name"])
        if case.get("config_name"):
            ini = os.path.join(ws.inp, case["config_name"])
        argv = ["-o", ws.out] + list(case["opts"]) + [ini, ods]
        allowed = (os.path.realpath(ws.out) + os.sep, os.path.realpath(os.path.join(ws.cwd, "log")) + os.sep)
        allowed_dirs = (os.path.realpath(ws.out), os.path.realpath(os.path.join(ws.cwd, "log")))
        env = dict(GENERIC_ENV) if case["country"] == "generic" else {}
        env.update(case.get("env") or {})
        tag = f"{' '.join(f'{k}={v}' for k, v in (case.get('env') or {}).items())} rp2_{case['country']} {' '.join(case['opts'])} on {case['kind']} input '{case['shape']}'".strip()
        payload = {"kind": "dynamic", "case": {k: case[k] for k in ("kind", "country", "opts", "shape", "ini", "sheets", "input_name", "config_name", "env") if k in case}}
        # files of the user's in the output directory (an archived copy named after a report, an encrypted copy, notes): RP2 may only
        # touch the reports it writes itself
        os.makedirs(ws.out, exist_ok=True)
        foreign = {}
        if case["kind"] == "valid":
            for name in ("fifo_tax_report_us.ods.2021-04-15", "fifo_rp2_full_report.ods.gpg", "hifo_open_positions.ods.bak", "notes.txt", "fifo_rp2_full_report.ods.tmp"):
                with open(os.path.join(ws.out, name), "w", encoding="utf-8") as fh:
                    fh.write("user file " + name)
                foreign["out/" + name] = hashlib.sha256(("user file " + name).encode()).hexdigest()
            # ... and symbolic links named exactly like reports of this run, left behind after the reports were archived elsewhere: one to an existing
            # file, one dangling. RP2 may replace the links (they are entries of the output directory); it may not touch what they point at
            arch = os.path.join(ws.root, "archive")
            os.makedirs(arch, exist_ok=True)
            with open(os.path.join(arch, "archived_report.ods"), "w", encoding="utf-8") as fh:
                fh.write("archived copy")
            foreign["archive/archived_report.ods"] = hashlib.sha256(b"archived copy").hexdigest()
            prefix = case["opts"][case["opts"].index("-p") + 1] if "-p" in case["opts"] else ""
            for m in ("fifo", "lifo", "hifo", "lofo", "mixed"):
                os.symlink(os.path.join(arch, "archived_report.ods"), os.path.join(ws.out, f"{prefix}{m}_rp2_full_report.ods"))
                os.symlink(os.path.join(arch, "not_there.ods"), os.path.join(ws.out, f"{prefix}{m}_open_positions.ods"))
        before = snapshot(ws.root)
        for run_no in (1, 2):
            st.inc("evaluations")
            st.inc(f"runs_{case['kind']}")
            res = cli.run_fresh(case["country"], argv, ws.cwd, ws.out, env_extra=env or None, audit=True)
            events = res.audit or []
            if res.audit is None or (not events and res.exit == 0):
                st.violation(dict(payload, signature="C18 harness: no audit record", what=f"{tag} run {run_no}: the audit hook recorded nothing (exit {res.exit})"))
                break
            st.inc("audit_events", len(events))
            for ev, args in events:
                if ev.startswith(cli.AUDIT_DENY_PREFIXES):
                    st.violation(dict(payload, signature=f"C18 forbidden operation / {ev}", what=f"{tag} run {run_no} (exit {res.exit}): {ev} {args[:3]}"))
                    continue
                # file-system events: every path argument must lie in the output directory or in ./log
                paths = [a for a in args[:2] if isinstance(a, str) and a not in ("None",) and not a.lstrip("-").isdigit() and ("/" in a or "." in a or a == "log")]
                if ev == "open":
                    paths = args[:1]
                for p in paths:
                    if os.path.basename(p).startswith(".audit-") or p.isdigit():
                        continue
                    rp = resolve(p, ws.cwd, follow_last=(ev == "open"))
                    if not (rp.startswith(allowed) or rp in allowed_dirs):
                        st.violation(dict(payload, signature=f"C18 write outside output / log directories / {ev}", what=f"{tag} run {run_no} (exit {res.exit}): {ev} on {p}"))
            after = snapshot(ws.root)
            changed = sorted(k for k in set(before) | set(after) if before.get(k) != after.get(k))
            for k, digest in foreign.items():
                if after.get(k) != digest:
                    st.violation(dict(payload, signature="C18 a file of the user's in the output directory was deleted or modified",
                                      what=f"{tag} run {run_no} (exit {res.exit}): {k} is {'gone' if k not in after else 'modified'}"))
            for k in changed:
                top = k.split("/")[0]
                ok = top == "out" or k in ("out/",) or k.startswith("cwd/log/") or k == "cwd/log/"  # anything under archive/ is outside
                if not ok:
                    what = "created" if k not in before else ("deleted" if k not in after else "modified")
                    st.violation(dict(payload, signature=f"C18 file {what} outside output / log directories / {'input' if top == 'in' else top}",
                                      what=f"{tag} run {run_no} (exit {res.exit}): {k} was {what}"))
            if changed:
                st.inc("distinct_nontrivial")
            before = after
        st.sample({"run": tag, "exit": res.exit, "audit_events_last_run": len(events), "changed_paths_last_run": changed[:6]}, cap=1)
    finally:
        ws.remove()


def worker(chunk: List[Dict[str, Any]]) -> Stats:
    st = Stats()
    for c in chunk:
        judge(st, c)
    return st


def main(tier: str, budget_s: Optional[float] = None) -> int:
    t0 = time.time()
    deadline = t0 + (budget_s or (270 if tier == "quick" else 3000))
    counts, static_violations = static_walk()
    cases = dynamic_cases(tier)
    n = max(1, min(len(cases), common.NPROC * 8))
    chunks = [cases[i::n] for i in range(n)]
    results, done = common.pmap(worker, chunks, deadline=deadline)
    total = Stats()
    for r in results:
        if r is not None:
            total.merge(r)
    for v in static_violations:
        total.violation(v)
    complete = done == len(chunks)
    new, matched = common.report(PROP, total.violations)
    coverage = {
        "evaluations": total.get("evaluations") + counts["modules"],
        "distinct_nontrivial": total.get("distinct_nontrivial"),
        "monitored_runs": total.get("evaluations"),
        "runs_on_valid_inputs": total.get("runs_valid"),
        "runs_on_invalid_inputs": total.get("runs_invalid"),
        "audit_events_examined": total.get("audit_events"),
        "static": counts,
        "rule": (
            "dynamic: every entry point x option sets (methods, languages, filters, prefix, -a, an [accounting_methods] section) on valid input shapes, and one "
            "instance of every fault class of C12's end-to-end list (bad fields, broken sheets, malformed configs, conflicting options, missing files, overdraft) - each "
            "case run twice into the same output directory in a fresh interpreter under an audit hook, with a sha256 snapshot of the whole private tree before and "
            "after each run; static: every module of the rp2 package parsed, imports and call names against a deny-list. evaluations = monitored runs + modules "
            "walked; non-trivial = runs that changed some file"
        ),
        "exhaustive": bool(complete),
        "violations_total": total.get("violations_total"),
        "known_finding_hits": matched,
        "samples": total.samples[:6],
    }
    common.write_evidence(PROP, tier, LEVEL, coverage, time.time() - t0, new, assumptions=[
        "behaviour on paths no explored run reaches is covered only by the syntactic import walk",
        "audit events of CPython: socket.*, subprocess.Popen, os.system / exec* / posix_spawn / fork, urllib.Request, http.client.*, ftplib.*, smtplib.*, webbrowser.open; open() for writing, "
        "rename / remove / mkdir / rmdir / chmod ...",
    ])
    print(f"{PROP} {tier}: monitored_runs={total.get('evaluations')} modules={counts['modules']} audit_events={total.get('audit_events')} violations={total.get('violations_total')} "
          f"(unlisted {new}) exhaustive={complete} wall={time.time() - t0:.1f}s")
    return 1 if new else 0


def replay(path: str) -> int:
    import json

    with open(path, encoding="utf-8") as f:
        p = json.load(f)
    if p.get("kind") == "static":
        _counts, v = static_walk()
        hit = [x for x in v if x["module"] == p["module"]]
        if hit:
            print(f"VIOLATION property={PROP} replay={path}\n  {hit[0]['what']}")
            return 1
        print(f"replay: {path}: property {PROP} holds on this case")
        return 0
    st = Stats()
    judge(st, dict(p["case"], id="replay"))
    if st.violations:
        print(f"VIOLATION property={PROP} replay={path}\n  {st.violations[0]['what']}")
        return 1
    print(f"replay: {path}: property {PROP} holds on this case")
    return 0
