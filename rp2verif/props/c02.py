"""C02 - every disposal is fully covered by earlier lots; no lot overspent; error iff uncovered.

Prefix tree of valid AND over-spending single-asset histories (S(ALL) in the alphabet at every node) under every
method / two-year schedule. Reference model: cumulative acquired vs cumulative disposed per instant.
"""
from __future__ import annotations

import time
from fractions import Fraction
from typing import Any, Dict, List, Optional, Sequence, Tuple

from rp2verif import common
from rp2verif import history as H
from rp2verif.common import Stats
from rp2verif.lotrun import generic_worker, run_phases, sched_str, single_schedules, two_year_schedules
from rp2verif.lottree import History, balance_track
from rp2verif.models import lots as ML

PROP = "C02"
LEVEL = "model_checking"

SYMBOLS = (
    [H.B(p, a) for p in (1, 2) for a in (1, 2, 3)]
    + [H.E(1, a) for a in (1, 2)]
    + [H.S(a) for a in (1, 2, 3)]
    + [H.S(H.ALL), H.S(1, fee=1)]
    + [H.M(2, 1), H.M(2, 1, src=0, dst=0)]  # the fee of a transfer leaves the holder also when the transfer goes to the same account
)
FIRST = [s for s in SYMBOLS if s[0] in ("B", "E")]
EXTRA = 1  # an over-spent node is extended by one more level (must stay rejected), then cut
SCALES = ("3/10", "1/100000000000", "12345678901/100000000000")


TZ_DEVS = (540, -300, -480)
# the asset computed before the one under test in the 'shared engine' phase: same spreadsheet rows, other prices and times
PRELUDE = ((H.B(3, 1), "="), (H.B(1, 2), "d"), (H.E(2, 1), "d"), (H.S(2), "d"))


# alphabet of the front-end phase (spreadsheet -> parse_ods -> compute_tax): purchases and income that pay their fee in crypto - the parser
# turns each fee into a fee-typed disposal at the instant of the acquisition, which the lots must cover like any other disposal
FE_SYMBOLS = [H.B(1, 1), H.B(2, 1, fee="1/4"), H.B(3, 2, fee="1/2"), H.B(2, 1, typ="INTEREST", fee="1/4"), H.S(1), H.S(2), H.S(H.ALL), H.M(2, 1)]
FE_FIRST = [s for s in FE_SYMBOLS if s[0] in ("B", "E")]


def deviations(hist: History, max_dev: Any) -> List[Tuple[History, Dict[str, Any], str]]:
    if max_dev == "tz":
        # one transaction written in another UTC offset, steps of one hour: wall-clock order contradicts the order of the instants
        out = []
        stepped = tuple((it[0], "h" if it[1] == "d" else it[1]) for it in hist)
        for i in range(len(hist)):
            for tz in TZ_DEVS:
                out.append((tuple((it[0], it[1], tz if j == i else 0) for j, it in enumerate(stepped)), {"scale": 1}, f"tz:{tz}@{i}"))
        return out
    if max_dev == "from":
        return [(hist, {"scale": 1, "from_last_day": True}, "a from-date on the day of the last transaction")]
    if max_dev == "prelude":
        prelude = H.materialize(PRELUDE)
        return [(hist, {"scale": 1, "prelude": prelude}, "another asset computed first with the same engine")]
    return [(hist, {"scale": sc}, f"scale:{sc}") for sc in SCALES]


def judge(st: Stats, hist: History, specs: List[Dict[str, Any]], schedule: Sequence[Tuple[int, str]], out: Any, label: str = "") -> None:
    from rp2verif.seams import compute as C

    st.inc("states")
    st.inc(f"states_depth_{len(hist)}")
    if len(hist) > 1:
        st.inc("transitions")
    expected_reject = ML.overspent(specs)
    if expected_reject != balance_track(hist)[0]:
        raise AssertionError(f"harness: pruning model and oracle disagree on {H.hist_str(hist)}")
    base = {"history": H.hist_str(hist), "hist": hist, "specs": specs, "schedule": list(schedule), "deviation": label}
    if not out.ok:
        if not isinstance(out.error, C.RP2Error):
            st.violation(dict(base, signature=f"C02 internal error / {type(out.error).__name__}",
                              what=f"{sched_str(schedule)}: {H.hist_str(hist)} :: {type(out.error).__name__}: {out.error}"))
            return
        if expected_reject:
            st.inc("rejected_as_expected")
            st.inc("traces_validated_against_impl")
            st.inc("distinct_nontrivial")
            if st.get("rejected_as_expected") <= 1:
                st.sample({"history": H.hist_str(hist), "hist": hist, "schedule": sched_str(schedule), "outcome": f"rejected: {out.error}"}, cap=8)
            return
        st.violation(dict(base, signature=f"C02 valid history rejected / {type(out.error).__name__}",
                          what=f"valid history rejected under {sched_str(schedule)}: {H.hist_str(hist)} :: {out.error}"))
        return
    if expected_reject:
        st.violation(dict(base, signature="C02 over-spending history accepted",
                          what=f"{sched_str(schedule)}: {H.hist_str(hist)} :: a disposal is not covered by the lots acquired so far, yet figures were produced"))
        return
    if label.startswith("a from-date"):
        st.inc("traces_validated_against_impl")
        return  # the window shows a subset of the fractions: only accept / reject is judged here (C10 compares the figures)
    fr = C.fractions_of(out.computed)
    problems = ML.conservation(specs, fr)
    lots, disposals = ML.view(specs)
    total_in = sum((l.amount for l in lots.values()), Fraction(0))
    total_out = sum((d.amount for d in disposals.values()), Fraction(0))
    per_lot: Dict[int, Fraction] = {}
    for _e, l, a in fr:
        if l is not None:
            per_lot[l] = per_lot.get(l, Fraction(0)) + a
    sold_out = bool(disposals) and total_in == total_out
    if sold_out:
        st.inc("sold_out_nodes")
        for r, lot in lots.items():
            if per_lot.get(r, Fraction(0)) != lot.amount:
                problems.append(f"entire holding disposed of, but lot row {r} is left with {lot.amount - per_lot.get(r, Fraction(0))}")
    st.inc("traces_validated_against_impl")
    if disposals:
        st.inc("distinct_nontrivial")
    if problems:
        st.violation(dict(base, signature=f"C02 conservation / {problems[0].split(':')[0].split(' row ')[0]}",
                          what=f"{sched_str(schedule)}: {H.hist_str(hist)} :: {problems[0]}",
                          fractions=[(e, l, str(a)) for e, l, a in fr], problems=problems))
    elif sold_out and len(per_lot) >= 2:
        st.sample({"history": H.hist_str(hist), "hist": hist, "schedule": sched_str(schedule), "deviation": label,
                   "fractions(event row, lot row, amount)": [(e, l, str(a)) for e, l, a in fr]}, cap=2)


HEAVY_PHASES = ("single methods", "three-year schedules", "1 deviation", "2 deviations", "two-year schedules across New Year, one transaction in another UTC offset",
                "amount scales", "one transaction in another UTC offset", "two-year schedules")


def plan(tier: str) -> List[Dict[str, Any]]:
    singles = single_schedules()
    two = two_year_schedules()
    if tier == "quick":
        return [
            {"name": "single methods", "schedules": singles, "steps": ("=", "d"), "depth": 4, "dev": 0, "group": 1},
            {"name": "two-year schedules", "schedules": two, "steps": ("=", "d", "y"), "depth": 3, "dev": 0, "group": 4},
            {"name": "amount scales", "schedules": singles, "steps": ("=", "d"), "depth": 3, "dev": 1, "group": 2, "from_depth": 2},
            {"name": "sheet order reversed", "schedules": singles, "steps": ("=", "d"), "depth": 3, "dev": 0, "group": 4, "row_order": "reverse"},
            {"name": "one transaction in another UTC offset", "schedules": singles, "steps": ("=", "d"), "depth": 3, "dev": "tz", "group": 2, "from_depth": 2},
            {"name": "another asset computed first with the same engine", "schedules": singles, "steps": ("=", "d"), "depth": 3, "dev": "prelude", "group": 2, "from_depth": 2},
            {"name": "accept / reject with a from-date (filters only hide rows)", "schedules": singles[:2], "steps": ("=", "d"), "depth": 3, "dev": "from", "group": 2, "from_depth": 2},
            {"name": "steps of 250 ms (same second), sheet order reversed", "schedules": singles, "steps": ("ms", "d"), "depth": 3, "dev": 0, "group": 4, "row_order": "reverse"},
            {"name": "front end: crypto-fee acquisitions through parse_ods", "schedules": singles, "steps": ("=", "d"), "depth": 3, "dev": "front", "group": 4, "symbols": "fe"},
            {"name": "front end, sheet order reversed", "schedules": singles[:2], "steps": ("=", "d"), "depth": 3, "dev": "front", "group": 2, "symbols": "fe", "row_order": "reverse"},
        ]
    return [
        {"name": "single methods", "schedules": singles, "steps": ("=", "d"), "depth": 5, "dev": 0, "group": 1},
        {"name": "two-year schedules", "schedules": two, "steps": ("=", "d", "y"), "depth": 4, "dev": 0, "group": 2},
        {"name": "amount scales", "schedules": singles, "steps": ("=", "d"), "depth": 4, "dev": 1, "group": 1, "from_depth": 2},
        {"name": "sheet order reversed", "schedules": singles, "steps": ("=", "d"), "depth": 4, "dev": 0, "group": 4, "row_order": "reverse"},
        {"name": "one transaction in another UTC offset", "schedules": singles, "steps": ("=", "d"), "depth": 4, "dev": "tz", "group": 1, "from_depth": 2},
        {"name": "another asset computed first with the same engine", "schedules": singles + two[:4], "steps": ("=", "d"), "depth": 4, "dev": "prelude", "group": 2, "from_depth": 2},
        {"name": "accept / reject with a from-date (filters only hide rows)", "schedules": singles, "steps": ("=", "d"), "depth": 4, "dev": "from", "group": 2, "from_depth": 2},
        {"name": "steps of 250 ms (same second), sheet order reversed", "schedules": singles, "steps": ("ms", "d"), "depth": 4, "dev": 0, "group": 4, "row_order": "reverse"},
        {"name": "front end: crypto-fee acquisitions through parse_ods", "schedules": singles + two[:4], "steps": ("=", "d"), "depth": 4, "dev": "front", "group": 2, "symbols": "fe"},
        {"name": "front end, sheet order reversed", "schedules": singles, "steps": ("=", "d"), "depth": 4, "dev": "front", "group": 2, "symbols": "fe", "row_order": "reverse"},
    ]


def main(tier: str, budget_s: Optional[float] = None) -> int:
    t0 = time.time()
    budget = budget_s or (240 if tier == "quick" else 3300)
    deadline = t0 + budget
    phases = plan(tier)
    # cheap phases first, the big trees last: if the budget runs out, it cuts into depth, not into whole dimensions
    total, info, complete = run_phases([ph for ph in phases if ph.get("symbols") == "fe"], generic_worker, FE_FIRST, FE_SYMBOLS, EXTRA, deadline, __name__)
    main_phases = sorted([ph for ph in phases if ph.get("symbols") != "fe"], key=lambda ph: (ph["name"] in HEAVY_PHASES, ))
    t2, i2, c2 = run_phases(main_phases, generic_worker, FIRST, SYMBOLS, EXTRA, deadline, __name__, by_depth=True)
    total.merge(t2)
    info += i2
    complete = complete and c2
    from rp2verif.lotrun import run_bundled

    complete = run_bundled(__name__, total, info, deadline) and complete
    new, matched = common.report(PROP, total.violations)
    coverage = {
        "states": total.get("states"),
        "transitions": total.get("transitions"),
        "traces_validated_against_impl": total.get("traces_validated_against_impl"),
        "evaluations": total.get("states"),
        "distinct_nontrivial": total.get("distinct_nontrivial"),
        "rule": (
            "every node of the prefix tree of single-asset histories (valid and over-spending; an over-spent node is "
            "extended one more level, then cut) x every schedule, executed from scratch; accept/reject compared with the "
            "cumulative-balance model and, on success, per-event / per-lot sums checked in exact arithmetic. (history, "
            "schedule) pairs are distinct by construction; non-trivial = contains a disposal (or is rejected)"
        ),
        "rejected_as_expected": total.get("rejected_as_expected"),
        "sold_out_nodes(all lots must be exactly exhausted)": total.get("sold_out_nodes"),
        "alphabet": [H.sym_str(s) for s in SYMBOLS],
        "amount_scales": list(SCALES),
        "phases": info,
        "per_depth": {k: v for k, v in sorted(total.counters.items()) if k.startswith("states_depth_")},
        "exhaustive": bool(complete),
        "violations_total": total.get("violations_total"),
        "known_finding_hits": matched,
        "samples": total.samples[:8],
    }
    common.write_evidence(PROP, tier, LEVEL, coverage, time.time() - t0, new, assumptions=[
        "histories outside the alphabet / deeper than the completed depth are not covered",
        "account-level overdrafts are C08's business: allow_negative_balances=True here so that only the lot matcher decides",
    ])
    print(f"{PROP} {tier}: states={total.get('states')} transitions={total.get('transitions')} validated={total.get('traces_validated_against_impl')} "
          f"rejected_ok={total.get('rejected_as_expected')} sold_out={total.get('sold_out_nodes')} violations={total.get('violations_total')} "
          f"(unlisted {new}) exhaustive={complete} wall={time.time() - t0:.1f}s")
    for i in info:
        print("  ", i)
    return 1 if new else 0


def replay(path: str) -> int:
    from rp2verif.lotrun import replay_compute

    return replay_compute(__name__, path)
