"""C17 - results depend only on the input: deterministic, order- and asset-independent.

Differential oracles only (two runs of the real code that the property says must agree):
 (a) order   - every permutation of the rows inside each table x every order of the tables, parser + compute seam;
               canonical dumps keyed by unique id must be equal;
 (b) assets  - 3 assets whose rows share spreadsheet row numbers, every non-empty subset processed together (one
               accounting engine, as rp2_main does), every method: each asset's dump and report sheets must not depend
               on the company it keeps (generator seam);
 (c) seeds   - the real CLI under PYTHONHASHSEED values chosen so that every iteration order of the asset, exchange and
               holder sets is observed; content.xml / styles.xml of every report byte-identical;
 (d) history - every sequence of <= 2 earlier runs (menu of 4 option tuples) into the same output directory, then the
               reference run: files identical to a run into a fresh directory; plus the same run twice.
"""
from __future__ import annotations

import hashlib
import itertools
import os
import subprocess
import time
import zipfile
from typing import Any, Dict, List, Optional, Sequence, Tuple

from rp2verif import clishapes as CS
from rp2verif import common
from rp2verif import history as H
from rp2verif.common import Stats

PROP = "C17"
LEVEL = "exploration"


# ------------------------------------------------------------------------------------------------------------------
# (a) row / table order


def canonical(C: Any, computed: Any) -> Dict[str, Any]:
    """Dump of a ComputedData with every row id replaced by the transaction's unique id."""
    from rp2verif.seams import generator as G

    d = G.xdump(C, computed)
    uid: Dict[int, str] = {}
    for key in ("in_rows", "out_rows", "intra_rows"):
        for r in d[key]:
            uid[r["row"]] = ("artificial:" if r["row"] < 0 else "") + str(r["unique_id"])
    out: Dict[str, Any] = {}
    for key in ("in_rows", "out_rows", "intra_rows"):
        out[key] = [{k: (uid[v] if k == "row" else v) for k, v in r.items()} for r in d[key]]
    out["detail"] = [{k: (uid.get(v, v) if k in ("event", "lot") else v) for k, v in r.items()} for r in d["detail"]]
    out["yearly"] = d["yearly"]
    out["yearly_order"] = d["yearly_order"]
    out["balances"] = d["balances"]
    out["price_per_unit"] = d["price_per_unit"]
    out["taxable"] = [uid.get(r, r) for r in d["taxable"]]
    return out


def order_bases(depth: int = 3) -> List[Tuple[str, List[Dict[str, Any]]]]:
    from rp2verif import frdriver as D

    out = []
    for h in D.histories(depth):
        if len(h) < 2:
            continue
        specs = D.specs_for(h, "a", "chrono")
        if specs is not None:
            out.append((("[depth 4] " if len(h) == 4 else "") + H.hist_str(h), specs))
    # a richer base: 3 IN, 2 OUT, 2 INTRA rows
    rich = ((H.B(1, 3), "="), (H.M(1, 0), "d"), (H.B(3, 2, fee="1/4"), "d"), (H.S(2), "200d"), (H.E(2, 1), "d"), (H.M(2, 1), "y"), (H.S(1, typ="GIFT"), "d"))
    specs = D.specs_for(rich, "a", "chrono")
    assert specs is not None
    out.append((H.hist_str(rich), specs))
    # fills inside the same second (distinct timestamps all the same), then disposals that need the later ones
    for tail in (((H.S(1), "d"),), ((H.S(2), "d"),), ((H.S(2), "d"), (H.S(1), "d")), ((H.S(1), "ms"), (H.S(1), "d"))):
        sub = ((H.B(1, 1), "="), (H.B(3, 1), "ms"), (H.B(2, 1), "ms")) + tail
        specs = D.specs_for(sub, "a", "chrono")
        assert specs is not None
        out.append((H.hist_str(sub), specs))
    return out


def permuted_sheets(specs: Sequence[Dict[str, Any]], limit: Optional[int] = None) -> List[Tuple[str, List[List[Any]]]]:
    """Every permutation of the rows inside each table x every order of the (present) tables."""
    from rp2verif import sheets as S

    layout = S.canonical_layout()
    by_table: Dict[str, List[Dict[str, Any]]] = {"in": [], "out": [], "intra": []}
    for s in specs:
        by_table[s["table"]].append(dict({k: v for k, v in s.items() if k not in ("table", "sym", "row")}, asset="B1"))
    present = [t for t in ("in", "out", "intra") if by_table[t]]
    out = []
    for order in itertools.permutations(present):
        for perms in itertools.product(*[list(itertools.permutations(range(len(by_table[t])))) for t in order]):
            tables = [(t, [by_table[t][i] for i in p]) for t, p in zip(order, perms)]
            matrix, _ = S.sheet_rows(tables, layout, leading=len(out) % 2, between=len(out) % 3)
            out.append((f"tables {'/'.join(order)} rows {perms}", matrix))
            if limit and len(out) >= limit:
                return out
    return out


def order_worker(chunk: List[Tuple[str, List[Dict[str, Any]]]]) -> Stats:
    from rp2verif.seams import compute as C
    from rp2verif.seams import parser as P

    st = Stats()
    cfg = P.config_for(P.canonical_layout())
    for label, specs in chunk:
        # the depth-4 bases of the thorough tier (about 50 000) run under hifo only: the method decides nothing about the order in which rows are read
        for method in ("hifo",) if label.startswith("[depth 4] ") else ("fifo", "hifo"):
            ref = None
            ref_label = ""
            variants = permuted_sheets(specs, limit=720)
            for vlabel, matrix in variants:
                st.inc("evaluations")
                st.inc("order_evaluations")
                try:
                    data = P.parse_ods(cfg, "B1", P.build_doc({"B1": matrix}))
                    computed = C.compute_tax(cfg, C.engine([(1970, method)]), data)
                    dump = canonical(C, computed)
                except Exception as exc:  # pylint: disable=broad-except
                    st.violation({"kind": "order", "label": label, "specs": specs, "variant": vlabel, "signature": f"C17 order: run failed / {type(exc).__name__}",
                                  "what": f"{method}: {label} [{vlabel}] :: {type(exc).__name__}: {exc}"})
                    continue
                if ref is None:
                    ref, ref_label = dump, vlabel
                    continue
                st.inc("distinct_nontrivial")
                diff = C.diff_dumps(dump, ref)
                if diff:
                    st.violation({"kind": "order", "label": label, "specs": specs, "variant": vlabel, "method": method, "signature": f"C17 order: result depends on sheet order / {diff.split(':')[0].split('[')[0]}",
                                  "what": f"{method}: {label} :: [{vlabel}] vs [{ref_label}] :: {diff}"})
            if ref is not None and len(variants) > 1:
                st.sample({"part": "a", "history": label, "method": method, "orders compared": len(variants)}, cap=1)
    return st


# ------------------------------------------------------------------------------------------------------------------
# (b) asset subsets


def asset_inputs() -> Dict[str, List[Dict[str, Any]]]:
    """Three assets whose IN rows land on the same spreadsheet rows but rank differently by price and time."""
    from rp2verif import frdriver as D

    hs = {
        "B1": ((H.B(1, 1), "="), (H.B(3, 1), "d"), (H.B(2, 1), "d"), (H.S(1), "y"), (H.S(1), "d")),
        "B2": ((H.B(3, 1), "="), (H.B(1, 1), "d"), (H.B(2, 1), "d"), (H.S(1), "y"), (H.E(2, 1), "d"), (H.S(2), "d")),
        "B3": ((H.B(2, 2), "="), (H.E(1, 1), "d"), (H.B(3, 1), "d"), (H.M(2, 1), "y"), (H.S(2), "d")),
    }
    out = {}
    for a, h in hs.items():
        # B2's rows run against time: the same spreadsheet row holds an early lot in one asset and a late lot in another
        specs = D.specs_for(h, a.lower(), "reverse" if a == "B2" else "chrono")
        assert specs is not None
        out[a] = specs
    return out


# from-dates of the subset runs: none; one that hides part of every asset's 2021 events; one that hides ALL 2021 events of B1 and B3 but
# not of B2 (their 2021 summary lines stay, without a visible detail row to point at)
SUBSET_FROMS = (None, "2021-03-04", "2021-03-05")


def subsets_worker(chunk: List[Tuple[Any, ...]]) -> List[Tuple[str, Tuple[str, ...], Dict[str, Any]]]:
    """Runs (method, subset) cases through the generator seam; returns per-asset dumps and sheets (compared in the parent)."""
    from rp2verif import frdriver as D
    from rp2verif.seams import generator as G

    inputs = asset_inputs()
    out = []
    from datetime import date as _date

    for task in chunk:
        method, subset = task[0], task[1]
        fd = _date.fromisoformat(task[2]) if len(task) > 2 and task[2] else None
        if fd is not None:
            method = f"{method} -f {fd}"
        assets, sheets = {}, {}
        for a in subset:
            sheets[a], assets[a] = D.to_sheet(inputs[a], a)
        case = {"assets": assets, "sheets": sheets, "schedule": [(1970, method.split(" ")[0])], "from": fd, "to": None, "country": "us", "lang": "en",
                "reports": ["rp2_full_report", "tax_report_us", "open_positions"], "allow_negative": True}
        res = G.run(case)
        per_asset: Dict[str, Any] = {"error": res["error"]}
        if not res["error"]:
            full = next(v for k, v in res["files"].items() if k.endswith("rp2_full_report.ods"))
            tax = next(v for k, v in res["files"].items() if k.endswith("tax_report_us.ods"))
            for a in subset:
                per_asset[a] = {
                    "dump": res["dumps"][a],
                    "in_out": full.get(f"{a} In-Out"),
                    "tax": full.get(f"{a} Tax"),
                    "summary_lines": [r for r in full.get("Summary", []) if any(f'"{a}"' in getattr(c, "text", "") for c in r)],
                    "tax_report_rows": sorted(repr(r) for rows in tax.values() for r in rows if len(r) > 1 and r[1] == a),
                }
        out.append((method, subset, per_asset))
    return out


# ------------------------------------------------------------------------------------------------------------------
# (c) hash seeds, (d) output-directory history


def report_fingerprint(out_dir: str) -> Dict[str, str]:
    """sha256 of content.xml + styles.xml of every .ods in the directory (meta.xml carries the generation time)."""
    fp: Dict[str, str] = {}
    for name in sorted(os.listdir(out_dir)) if os.path.isdir(out_dir) else []:
        path = os.path.join(out_dir, name)
        if name.endswith(".ods"):
            h = hashlib.sha256()
            with zipfile.ZipFile(path) as z:
                for member in ("content.xml", "styles.xml"):
                    h.update(z.read(member))
            fp[name] = h.hexdigest()
        else:
            fp[name] = "non-ods file"
    return fp


def seed_orders(seeds: Sequence[int]) -> Dict[int, Tuple[Tuple[str, ...], ...]]:
    """Iteration order of the three string sets RP2 builds from the config, per hash seed (measured in real interpreters)."""
    code = "print(';'.join(','.join(list(set(x.split(',')))) for x in ('B1,B2,B3', 'X1,X2,X3', 'H1,H2')))"
    out = {}
    for s in seeds:
        env = dict(os.environ, PYTHONHASHSEED=str(s))
        p = subprocess.run(["/venv/bin/python", "-S", "-c", code], env=env, capture_output=True, text=True, check=True)
        out[s] = tuple(tuple(part.split(",")) for part in p.stdout.strip().split(";"))
    return out


def pick_seeds(max_seed: int = 200) -> Tuple[List[int], Dict[str, int]]:
    orders = seed_orders(range(max_seed))
    need = [set(), set(), set()]
    picked: List[int] = []
    for s in range(max_seed):
        o = orders[s]
        new = any(o[i] not in need[i] for i in range(3))
        if new:
            picked.append(s)
            for i in range(3):
                need[i].add(o[i])
        if len(need[0]) == 6 and len(need[1]) == 6 and len(need[2]) == 2:
            break
    return picked, {"asset_set_orders": len(need[0]), "exchange_set_orders": len(need[1]), "holder_set_orders": len(need[2])}


def cli_worker(task: Dict[str, Any]) -> Dict[str, Any]:
    from rp2verif.seams import cli

    shape = CS.shapes()[task["shape"]]
    ws = cli.Workspace(f"c17-{task['id']}")
    try:
        ini = ws.write("config.ini", CS.ini_for(shape))
        ods = cli.write_ods(os.path.join(ws.inp, "input.ods"), CS.matrices(shape))
        fps = []
        cc = task.get("country", "us")
        env = {"CURRENCY_CODE": "usd", "LONG_TERM_CAPITAL_GAINS": "365"} if cc == "generic" else None
        for run in task["runs"]:
            argv = ["-o", ws.out] + list(run["opts"]) + [ini, ods]
            if task["mode"] == "fresh":
                res = cli.run_fresh(cc, argv, ws.cwd, ws.out, hashseed=str(run.get("seed", 0)), env_extra=env)
            else:
                res = cli.run_forked(cc, argv, ws.cwd, ws.out, env_extra=env)
            fps.append({"exit": res.exit, "files": report_fingerprint(ws.out), "tail": (res.stderr or res.stdout)[-300:] if res.exit else ""})
            if run.get("clean_after"):
                ws.clean_out()
        return {"task": task, "fingerprints": fps}
    finally:
        ws.remove()


MENU = [["-m", "hifo"], ["-f", "2020-06-01"], ["-t", "2020-12-31", "-p", "x_"], ["-a", "B1"]]
REFERENCE = ["-m", "fifo"]


def cli_init() -> None:
    from rp2verif.seams import cli

    cli.preload()


# ------------------------------------------------------------------------------------------------------------------


def main(tier: str, budget_s: Optional[float] = None) -> int:
    t0 = time.time()
    deadline = t0 + (budget_s or (270 if tier == "quick" else 3000))
    total = Stats()
    phases: List[Dict[str, Any]] = []
    complete = True

    # (c) + (d) first: the forking workers must be rp2-free
    seeds, order_cov = pick_seeds()
    if tier == "quick":
        seeds_used = seeds + [s for s in range(40) if s not in seeds][:6]
        seed_shapes = ["all_types", "multi", "same_instant", "transfers"]
    else:
        seeds_used = sorted(set(seeds) | set(range(48)))
        seed_shapes = sorted(CS.shapes())
    tasks: List[Dict[str, Any]] = []
    for shape in seed_shapes:
        for s in seeds_used:
            tasks.append({"kind": "seed", "mode": "fresh", "shape": shape, "seed": s, "runs": [{"opts": ["-m", "hifo"], "seed": s}]})
    # every entry point with its DEFAULT options (default method, default language) under the same seeds
    for cc in ("us", "jp", "es", "ie", "generic"):
        for s in seeds_used:
            tasks.append({"kind": "seed", "mode": "fresh", "country": cc, "shape": "multi", "seed": s, "runs": [{"opts": [], "seed": s}]})
    histories = [[]] + [[a] for a in range(len(MENU))] + [[a, b] for a in range(len(MENU)) for b in range(len(MENU))]
    if tier != "quick":
        histories += [[a, b, c] for a in range(len(MENU)) for b in range(len(MENU)) for c in range(len(MENU))]
    for shape in (["multi"] if tier == "quick" else ["multi", "all_types"]):
        tasks.append({"kind": "fresh-dir", "mode": "forked", "shape": shape, "runs": [{"opts": REFERENCE}]})
        tasks.append({"kind": "twice", "mode": "forked", "shape": shape, "runs": [{"opts": REFERENCE, "clean_after": True}, {"opts": REFERENCE}]})
        for hist in histories[1:]:
            tasks.append({"kind": "history", "mode": "forked", "shape": shape, "history": hist, "runs": [{"opts": MENU[i]} for i in hist] + [{"opts": REFERENCE}]})
    for i, t in enumerate(tasks):
        t["id"] = i
    t1 = time.time()
    results, done = common.pmap(cli_worker, tasks, deadline=deadline, init=cli_init)
    complete = complete and done == len(tasks)
    by_shape_seed: Dict[str, Dict[int, Any]] = {}
    fresh_dir: Dict[str, Any] = {}
    for r in results:
        if r is None:
            continue
        t = r["task"]
        total.inc("evaluations", len(t["runs"]))
        total.inc("cli_runs", len(t["runs"]))
        last = r["fingerprints"][-1]
        if any(fp["exit"] != 0 for fp in r["fingerprints"]):
            bad = next(fp for fp in r["fingerprints"] if fp["exit"] != 0)
            total.violation({"kind": "cli", "task": t, "signature": "C17 cli run failed", "what": f"{t['kind']} on '{t['shape']}': exit {bad['exit']}: {bad['tail'][-200:]}"})
            continue
        if t["kind"] == "seed":
            by_shape_seed.setdefault(f"{t.get('country', 'us')}/{t['shape']}/{' '.join(t['runs'][0]['opts']) or 'default options'}", {})[t["seed"]] = last["files"]
        elif t["kind"] == "fresh-dir":
            fresh_dir[t["shape"]] = last["files"]
    for shape, per_seed in by_shape_seed.items():
        ref_seed = min(per_seed)
        for s, files in sorted(per_seed.items()):
            if s == ref_seed:
                continue
            total.inc("distinct_nontrivial")
            total.inc("seed_comparisons")
            if files != per_seed[ref_seed]:
                differing = sorted(k for k in set(files) | set(per_seed[ref_seed]) if files.get(k) != per_seed[ref_seed].get(k))
                total.violation({"kind": "seed", "shape": shape, "seeds": [ref_seed, s], "signature": f"C17 hash seed changes a report / {differing[0].split('_', 1)[-1]}",
                                 "what": f"rp2_<country>/<input>/<options> = {shape}: PYTHONHASHSEED={s} and ={ref_seed} give different content in {differing}"})
        total.sample({"part": "c", "shape": shape, "seeds": sorted(per_seed), "set orders covered": order_cov}, cap=12)
    for r in results:
        if r is None:
            continue
        t = r["task"]
        if t["kind"] in ("history", "twice") and t["shape"] in fresh_dir and all(fp["exit"] == 0 for fp in r["fingerprints"]):
            total.inc("distinct_nontrivial")
            total.inc("history_comparisons")
            final = r["fingerprints"][-1]["files"]
            want = fresh_dir[t["shape"]]
            # files written by the earlier runs under other names may remain; the reference run's own files must be identical
            diff = sorted(k for k in want if final.get(k) != want[k])
            if diff:
                total.violation({"kind": "history", "task": t, "signature": f"C17 earlier runs change a report / {diff[0].split('_', 1)[-1]}",
                                 "what": f"rp2_us {' '.join(REFERENCE)} on '{t['shape']}' after earlier runs {[MENU[i] for i in t.get('history', [])] or 'of the same command'}: {diff} differ from a fresh-directory run"})
    phases.append({"phase": "(c) hash seeds + (d) output-directory histories (real CLI)", "tasks": len(tasks), "done": done, "wall_s": round(time.time() - t1, 1),
                   "hash_seeds": seeds_used, "set_orders_covered": order_cov})

    # (b) asset subsets through the generator seam
    t1 = time.time()
    methods = ("fifo", "lifo", "hifo", "lofo")
    all_assets = ("B1", "B2", "B3")
    sub_tasks = [(m, tuple(s), f) for m in methods for f in SUBSET_FROMS for n in (1, 2, 3) for s in itertools.combinations(all_assets, n)]
    from rp2verif.props import c13

    chunks = [[t] for t in sub_tasks]
    results2, done2 = common.pmap(subsets_worker, chunks, deadline=deadline, init=c13.init)
    complete = complete and done2 == len(chunks)
    alone: Dict[Tuple[str, str], Any] = {}
    flat = [x for r in results2 if r is not None for x in r]
    for method, subset, per_asset in flat:
        total.inc("evaluations")
        total.inc("subset_runs")
        if per_asset.get("error"):
            total.violation({"kind": "subset", "method": method, "subset": list(subset), "signature": "C17 subset run failed", "what": f"{method} assets {subset}: {per_asset['error']}"})
            continue
        if len(subset) == 1:
            alone[(method, subset[0])] = per_asset[subset[0]]
    for method, subset, per_asset in flat:
        if len(subset) == 1 or per_asset.get("error"):
            continue
        for a in subset:
            ref = alone.get((method, a))
            if ref is None:
                continue
            total.inc("distinct_nontrivial")
            total.inc("subset_comparisons")
            for key in ("dump", "in_out", "tax", "summary_lines", "tax_report_rows"):
                if per_asset[a][key] != ref[key]:
                    detail = ""
                    if key == "dump":
                        from rp2verif.seams.compute import diff_dumps  # imported in the parent only on failure (the parent forks no more CLI runs after this point)

                        detail = str(diff_dumps(per_asset[a][key], ref[key]))
                    total.violation({"kind": "subset", "method": method, "subset": list(subset), "asset": a, "signature": f"C17 asset results depend on the other assets / {key}",
                                     "what": f"{method}: asset {a} processed with {subset} differs from {a} processed alone in its {key} {detail[:200]}"})
                    break
    total.sample({"part": "b", "subsets": [list(t[1]) for t in sub_tasks[:7]], "methods": list(methods), "from_dates": list(SUBSET_FROMS)}, cap=14)
    phases.append({"phase": "(b) every subset of 3 assets x 4 methods x from-date none / 2021-03-04 / 2021-03-05 (generator seam)", "tasks": len(chunks), "done": done2, "wall_s": round(time.time() - t1, 1)})

    # (a) row / table orders
    t1 = time.time()
    bases = order_bases(3 if tier == "quick" else 4)
    n = max(1, min(len(bases), common.NPROC * (4 if tier == "quick" else 64)))
    chunks3 = [bases[i::n] for i in range(n)]
    results3, done3 = common.pmap(order_worker, chunks3, deadline=deadline)
    complete = complete and done3 == len(chunks3)
    for r in results3:
        if r is not None:
            total.merge(r, sample_cap=20)
    phases.append({"phase": "(a) all row permutations x table orders (parser + compute)", "bases": len(bases), "done": done3, "of": len(chunks3), "wall_s": round(time.time() - t1, 1)})

    new, matched = common.report(PROP, total.violations)
    coverage = {
        "evaluations": total.get("evaluations"),
        "distinct_nontrivial": total.get("distinct_nontrivial"),
        "by_part": {k: total.get(k) for k in ("order_evaluations", "subset_runs", "subset_comparisons", "cli_runs", "seed_comparisons", "history_comparisons")},
        "rule": (
            "(a) for every base history (the depth<=3 tree of the report driver + a 7-row base): every permutation of the rows inside each "
            "table x every order of the tables (<= 720 per base) x fifo / hifo; (b) every non-empty subset of 3 row-colliding assets x 4 methods, each "
            "asset compared with itself processed alone (dump, its two full-report sheets, its Summary lines, its tax-report rows); (c) rp2_us under the "
            "hash seeds needed to observe all 6 / 6 / 2 iteration orders of the asset / exchange / holder sets; (d) every sequence of <= 2 earlier runs "
            "from a 4-item option menu into the same directory and the same run twice, vs a fresh directory. evaluations = executions; non-trivial = "
            "comparisons between two different executions"
        ),
        "phases": phases,
        "exhaustive": bool(complete),
        "violations_total": total.get("violations_total"),
        "known_finding_hits": matched,
        "samples": total.samples[:8],
    }
    common.write_evidence(PROP, tier, LEVEL, coverage, time.time() - t0, new, assumptions=[
        "hash seeds are a finite set chosen by a measured criterion (all iteration orders of the three configured string sets observed), not all 2^32",
        "reports are compared on content.xml and styles.xml; meta.xml carries the generation time",
        "row permutations keep timestamps distinct, as the property requires",
    ])
    print(f"{PROP} {tier}: evaluations={total.get('evaluations')} comparisons={total.get('distinct_nontrivial')} violations={total.get('violations_total')} (unlisted {new}) "
          f"exhaustive={complete} wall={time.time() - t0:.1f}s")
    for p in phases:
        print("  ", {k: v for k, v in p.items() if k != "hash_seeds"})
    return 1 if new else 0


def replay(path: str) -> int:
    import json
    import multiprocessing as mp

    with open(path, encoding="utf-8") as f:
        p = json.load(f)
    kind = p.get("kind")
    ctx = mp.get_context("fork")
    if kind == "order":
        with ctx.Pool(1) as pool:
            st = pool.apply(order_worker, ([(p["label"], p["specs"])],))
        bad = bool(st.violations)
        msg = st.violations[0]["what"] if bad else ""
    elif kind == "subset":
        from rp2verif.props import c13

        with ctx.Pool(1, initializer=c13.init) as pool:
            m, _, f = p["method"].partition(" -f ")
            res = pool.apply(subsets_worker, ([(m, tuple(p["subset"]), f or None), (m, (p["asset"],), f or None)],))
        together, alone = res[0][2], res[1][2]
        a = p["asset"]
        bad = any(together[a][k] != alone[a][k] for k in ("dump", "in_out", "tax", "summary_lines", "tax_report_rows"))
        msg = f"{p['method']}: asset {a} with {p['subset']} differs from {a} alone"
    else:
        print(f"replay: {path}: CLI cases of C17 are re-run by './check C17 --tier quick' (they compare several processes)")
        return 0
    if bad:
        print(f"VIOLATION property={PROP} replay={path}\n  {msg}")
        return 1
    print(f"replay: {path}: property {PROP} holds on this case")
    return 0
