"""C15 - the open-positions report matches balances and the cost of unsold lot parts.

Generator seam (open_positions plugin, no from-date). Asset B1 ranges over a multi-holder history tree (3 accounts over 2
exchanges x 2 holders, no account ever overdrawn), asset B2 over fixed multi-holder histories; x methods x to-dates.
Oracle in exact rationals: balances from a reference account replay of the input rows; unrealized cost = cost (with
fees) of the unconsumed lot parts; realized + unrealized = everything acquired; per-unit = unrealized / balance;
weights add up to 100 %.
"""
from __future__ import annotations

import time
from datetime import date, timedelta
from fractions import Fraction
from typing import Any, Dict, List, Optional, Sequence, Tuple

from rp2verif import common
from rp2verif import history as H
from rp2verif.common import Stats
from rp2verif.lottree import History, Tree

PROP = "C15"
LEVEL = "exploration"

# accounts: 0 = (X1,H1), 1 = (X2,H1), 2 = (X1,H2)
SYMBOLS = [
    H.B(1, 2, acct=0), H.B(2, 1, acct=2), H.E(3, 1, acct=1),
    H.S(1, acct=0), H.S(2, acct=0), H.S(1, acct=2), H.S(1, fee=1, acct=1),
    H.M(1, 0, src=0, dst=1), H.M(2, 1, src=0, dst=2), H.M(1, 0, src=2, dst=0),
    H.M(2, 1, src=0, dst=0),  # consolidation inside one account (accepted with a warning): only the fee leaves the account
]
FIRST = [s for s in SYMBOLS if s[0] in ("B", "E")]
STEPS = ("h", "d", "y")  # +1 hour: a lot acquired and partly disposed of on the same calendar day (the to-date day)
SECOND: List[History] = [
    ((H.B(5, 4, acct=2), "="), (H.M(2, 0, src=2, dst=1), "d"), (H.S(1, acct=1), "y")),
    ((H.B(2, 1, acct=0), "="), (H.B(4, 1, acct=0, fee="1/4"), "d"), (H.S(1, acct=0), "400d")),  # second lot bought with a fee paid in crypto
]
SCHEDULES = {"fifo": [(1970, "fifo")], "lifo": [(1970, "lifo")], "hifo": [(1970, "hifo")], "lofo": [(1970, "lofo")]}


def never_overdrawn(specs: Sequence[Dict[str, Any]]) -> bool:
    from rp2verif.models import accounts as MA

    return MA.overdraft_verdict(specs)[0] == "must_accept"


def mat(h: History, row_order: str, tz: int = 0, price_scale: Any = 1) -> Optional[List[Dict[str, Any]]]:
    """tz != 0: every timestamp written in that UTC offset at an hour where its own calendar date differs from the UTC date"""
    from datetime import datetime, timezone

    if not tz:
        return H.materialize(h, row_order=row_order, uid=True, price_scale=price_scale)
    h2 = tuple((it[0], it[1], tz) for it in h)
    return H.materialize(h2, row_order=row_order, uid=True, price_scale=price_scale, base=datetime(2020, 3, 1, 18 if tz > 0 else 2, 0, 0, tzinfo=timezone.utc))


def build_case(h1: History, second: Optional[int], sch: str, to_date: Optional[date], tz: int = 0, price_scale: Any = 1) -> Optional[Dict[str, Any]]:
    from rp2verif import frdriver as D

    s1 = mat(h1, "reverse", tz, price_scale)
    if s1 is None or not never_overdrawn(s1):
        return None
    assets = {"B1": s1}
    if second is not None:
        s2 = mat(SECOND[second], "chrono", tz, price_scale)
        assert s2 is not None and never_overdrawn(s2)
        assets["B2"] = s2
    sheets = {}
    for a in list(assets):
        sheets[a], assets[a] = D.to_sheet(assets[a], a)
    return {"label": f"{sch} -t {to_date}: {H.hist_str(h1)}" + (f" || B2: {H.hist_str(SECOND[second])}" if second is not None else "") + (f" [all timestamps at UTC{tz / 60:+.0f}h]" if tz else "")
            + (f" [prices x {price_scale}]" if price_scale != 1 else ""),
            "hist": h1, "second": second, "schedule_name": sch, "tz": tz, "price_scale": str(price_scale),
            "assets": assets, "sheets": sheets, "schedule": SCHEDULES[sch], "from": None, "to": to_date, "country": "us", "lang": "en",
            "reports": ["open_positions"], "allow_negative": False}


def alias_exchange(case: Dict[str, Any]) -> Dict[str, Any]:
    """The same case with exchange X1 renamed to 'H2' - a wallet called like one of the holders (a name is free text in both lists)."""
    def ren(v: Any) -> Any:
        return "H2" if v == "X1" else v

    c = dict(case)
    c["assets"] = {a: [{k: (ren(v) if k in ("exchange", "from_exchange", "to_exchange") else v) for k, v in s.items()} for s in specs] for a, specs in case["assets"].items()}
    c["sheets"] = {a: [[ren(v) for v in row] for row in rows] for a, rows in case["sheets"].items()}
    c["ini_kw"] = {"exchanges": ["H2", "X2", "X3"]}
    c["label"] = case["label"] + " [exchange X1 is called 'H2', like a holder]"
    c["alias"] = True
    return c


def check(case: Dict[str, Any], res: Dict[str, Any]) -> Tuple[List[str], Dict[str, int]]:
    from rp2verif import fullreport as FR
    from rp2verif import odsread as O
    from rp2verif.models import accounts as MA
    from rp2verif.models.lots import F, parse_ts

    problems: List[str] = []
    counts = {"asset_rows": 0, "exchange_rows": 0, "assets_with_open_position": 0}
    f = next((n for n in res["files"] if n.endswith("open_positions.ods")), None)
    if f is None:
        return [f"no open_positions.ods written (files {list(res['files'])})"], counts
    files = res["files"][f]
    td: Optional[date] = case["to"]
    # ---- reference figures per asset
    ref: Dict[str, Dict[str, Any]] = {}
    total_unrealized = Fraction(0)
    for asset in sorted(case["assets"]):
        specs = case["assets"][asset]
        D = res["dumps"][asset]
        bal = MA.balances(specs, td)
        lots = {r["row"]: r for r in D["in_rows"]}  # lots acquired up to the to-date
        # the same from the input rows alone: lots whose OWN calendar date is on or before the to-date; cost = amount x price + fee
        # (a fee given in crypto is worth fee x price)
        want_lots = {s["row"]: F(s["crypto_in"]) * F(s["spot_price"]) + F(s.get("fiat_fee") or 0) + F(s.get("crypto_fee") or 0) * F(s["spot_price"])
                     for s in specs if s["table"] == "in" and (td is None or parse_ts(s["timestamp"]).date() <= td)}
        if sorted(want_lots) != sorted(lots):
            problems.append(f"{asset}: lots of rows {sorted(lots)} are in the computed data, rows acquired on or before the to-date: {sorted(want_lots)}")
        for row, c in want_lots.items():
            if row in lots and lots[row]["fiat_in_with_fee"] != c:
                problems.append(f"{asset}: lot row {row} has cost (with fees) {float(lots[row]['fiat_in_with_fee'])} in the computed data, input says {float(c)}")
        consumed: Dict[int, Fraction] = {}
        realized = Fraction(0)
        for w in D["detail"]:
            if w["lot"] is not None:
                consumed[w["lot"]] = consumed.get(w["lot"], Fraction(0)) + w["amount"]
                realized += w["cost"]
        unrealized = Fraction(0)
        acquired_cost = Fraction(0)
        for row, lot in lots.items():
            left = lot["crypto_in"] - consumed.get(row, Fraction(0))
            if left < 0:
                problems.append(f"{asset}: lot row {row} over-consumed in the computed data")
            unrealized += lot["fiat_in_with_fee"] * left / lot["crypto_in"]
            acquired_cost += lot["fiat_in_with_fee"]
        if abs(realized + unrealized - acquired_cost) > acquired_cost / 10**15:
            problems.append(f"{asset}: realized cost {float(realized)} + cost of unsold lot parts {float(unrealized)} != cost of everything acquired {float(acquired_cost)} (computed data)")
        positive = {k: v["final"] for k, v in bal.items() if v["final"] > 0}
        ref[asset] = {"unrealized": unrealized, "accounts": positive, "total": sum(positive.values(), Fraction(0)), "realized": realized, "acquired": acquired_cost}
        total_unrealized += unrealized if positive else 0
    # ---- Asset sheet
    rows = files.get("Asset")
    xrows = files.get("Asset - Exchange")
    if rows is None or xrows is None:
        return problems + [f"sheets {list(files)}: 'Asset' / 'Asset - Exchange' missing"], counts
    got_asset: Dict[Tuple[str, str], int] = {}
    i = 3
    while i < len(rows) and O.cell(rows, i, 0) not in ("Total", "Grand Total") and not O.is_blank(O.cell(rows, i, 0)):
        got_asset[(O.cell(rows, i, 0), O.cell(rows, i, 1))] = i
        i += 1
    got_x: Dict[Tuple[str, str, str], int] = {}
    i = 3
    while i < len(xrows) and O.cell(xrows, i, 0) not in ("Total", "Grand Total") and not O.is_blank(O.cell(xrows, i, 0)):
        got_x[(O.cell(xrows, i, 0), O.cell(xrows, i, 1), O.cell(xrows, i, 2))] = i
        i += 1
    want_asset: Dict[Tuple[str, str], Fraction] = {}
    want_x: Dict[Tuple[str, str, str], Fraction] = {}
    for asset, r in ref.items():
        if r["unrealized"] <= 0 or not r["accounts"]:
            continue
        counts["assets_with_open_position"] += 1
        for (ex, ho), v in r["accounts"].items():
            want_asset[(asset, ho)] = want_asset.get((asset, ho), Fraction(0)) + v
            want_x[(asset, ho, ex)] = v
    if sorted(got_asset) != sorted(want_asset):
        problems.append(f"'Asset' sheet lists {sorted(got_asset)}; holders with a positive balance of an asset with unsold lots: {sorted(want_asset)}")
    if sorted(got_x) != sorted(want_x):
        problems.append(f"'Asset - Exchange' sheet lists {sorted(got_x)}; accounts with a positive balance: {sorted(want_x)}")
    weight_sum = Fraction(0)
    per_asset_cost: Dict[str, Fraction] = {}
    for (asset, ho), i in got_asset.items():
        if (asset, ho) not in want_asset:
            continue
        counts["asset_rows"] += 1
        r = ref[asset]
        unit = r["unrealized"] / r["total"]
        tag = f"'Asset' row {asset}/{ho}"
        for col, name, want in ((2, "crypto balance", want_asset[(asset, ho)]), (3, "per-unit cost basis", unit), (4, "unrealized cost basis", want_asset[(asset, ho)] * unit),
                                (5, "cost basis weight", want_asset[(asset, ho)] * unit / total_unrealized if total_unrealized else Fraction(0))):
            if not O.close(O.cell(rows, i, col), want, rel=Fraction(1, 10**10)):
                problems.append(f"{tag}: {name} {O.cell(rows, i, col)!r} != {float(want)}")
        w = O.num(O.cell(rows, i, 5))
        weight_sum += w if w is not None else 0
        c = O.num(O.cell(rows, i, 4))
        per_asset_cost[asset] = per_asset_cost.get(asset, Fraction(0)) + (c if c is not None else 0)
    if got_asset and abs(weight_sum - 1) > Fraction(1, 10**9):
        problems.append(f"'Asset' sheet: cost-basis weights add up to {float(weight_sum)}, not 100 %")
    for asset, c in per_asset_cost.items():
        r = ref[asset]
        if abs(c + r["realized"] - r["acquired"]) > max(r["acquired"], Fraction(1)) / 10**9:
            problems.append(f"{asset}: realized cost basis {float(r['realized'])} + unrealized cost basis in the report {float(c)} != cost of everything acquired {float(r['acquired'])}")
    xweight = Fraction(0)
    for (asset, ho, ex), i in got_x.items():
        if (asset, ho, ex) not in want_x:
            continue
        counts["exchange_rows"] += 1
        r = ref[asset]
        unit = r["unrealized"] / r["total"]
        tag = f"'Asset - Exchange' row {asset}/{ho}/{ex}"
        for col, name, want in ((3, "crypto balance", want_x[(asset, ho, ex)]), (4, "per-unit cost basis", unit), (5, "unrealized cost basis", want_x[(asset, ho, ex)] * unit),
                                (6, "cost basis weight", want_x[(asset, ho, ex)] * unit / total_unrealized if total_unrealized else Fraction(0))):
            if not O.close(O.cell(xrows, i, col), want, rel=Fraction(1, 10**10)):
                problems.append(f"{tag}: {name} {O.cell(xrows, i, col)!r} != {float(want)}")
        w = O.num(O.cell(xrows, i, 6))
        xweight += w if w is not None else 0
    if got_x and abs(xweight - 1) > Fraction(1, 10**9):
        problems.append(f"'Asset - Exchange' sheet: cost-basis weights add up to {float(xweight)}, not 100 %")
    FR.check_legend(files.get("Legend"), {"names": {}}, case, problems, "open_positions")
    return problems, counts


def judge(st: Stats, case: Dict[str, Any]) -> None:
    from rp2verif.seams import generator as G

    st.inc("evaluations")
    res = G.run(case)
    payload = {"case": {"hist": case["hist"], "second": case["second"], "schedule_name": case["schedule_name"], "to": str(case["to"]) if case["to"] else None,
                        "tz": case.get("tz", 0), "price_scale": case.get("price_scale", "1"), "alias": case.get("alias", False)}}
    tag = case["label"]
    if res["error"]:
        st.violation(dict(payload, signature=f"C15 no report: {res['stage']} / {res['error'].split(':')[0]} / {res.get('where', '')}", what=f"{tag} :: {res['stage']}: {res['error'][:200]}"))
        return
    problems, counts = check(case, res)
    for k, v in counts.items():
        st.inc(k, v)
    if counts["exchange_rows"] >= 2:
        st.inc("distinct_nontrivial")
    if problems:
        first = problems[0]
        kind = first.split(":")[1].strip().split(" ")[0:3] if ":" in first else [first[:20]]
        st.violation(dict(payload, signature=f"C15 {first.split(':')[0].split(' row ')[0][:40]} / {' '.join(kind)}", what=f"{tag} :: {first}", problems=problems[:6]))
    elif counts["exchange_rows"] >= 3:
        st.sample({"case": tag, **counts}, cap=1)


def to_dates(case_specs: Sequence[Sequence[Dict[str, Any]]], mode: str) -> List[Optional[date]]:
    from rp2verif.models.lots import parse_ts

    ev = sorted({parse_ts(s["timestamp"]).date() for specs in case_specs for s in specs})
    out: List[Optional[date]] = [None]
    for y in sorted({d.year for d in ev}):
        out.append(date(y, 12, 31))
    if mode == "all":
        for d in ev:
            out += [d, d - timedelta(days=1)]
    else:
        out.append(ev[len(ev) // 2])
    seen: List[Optional[date]] = []
    for d in out:
        if d not in seen and (d is None or d >= ev[0]):
            seen.append(d)
    return seen


def cases(tier: str) -> List[Dict[str, Any]]:
    out: List[Dict[str, Any]] = []
    depth = 3
    tree = Tree(FIRST, SYMBOLS, STEPS, None)
    k = 0
    for d in range(1, depth + 1):
        for root in tree.roots(d):
            for h in tree.level(root, d):
                s1 = H.materialize(h, uid=True)
                if s1 is None or not never_overdrawn(s1):
                    continue
                k += 1
                seconds: Sequence[Optional[int]] = (None, 0, 1) if (tier == "thorough" or d <= 2) else ((None, 0, 1)[k % 3],)
                for second in seconds:
                    s2 = H.materialize(SECOND[second], uid=True) if second is not None else []
                    tds = to_dates([s1, s2 or []], "all" if (tier == "thorough" or d <= 2) else "few")
                    methods = ("fifo", "lifo", "hifo", "lofo") if tier == "thorough" else (("fifo", "hifo") if d <= 2 else (("fifo", "lifo", "hifo", "lofo")[k % 4],))
                    for m in methods:
                        for td in tds:
                            c = build_case(h, second, m, td)
                            if c:
                                out.append(c)
                if d <= 2:
                    # the same history with an exchange that is called like a holder
                    for second in (0, 1):
                        for td in to_dates([s1, H.materialize(SECOND[second], uid=True) or []], "few"):
                            c = build_case(h, second, "fifo", td)
                            if c:
                                out.append(alias_exchange(c))
                if d <= 2:
                    # the same history with every price x 1/320000 (a token worth a fraction of a cent: per-unit cost ~ 1e-5, many decimals)
                    for m in ("fifo", "hifo"):
                        for td in to_dates([s1, H.materialize(SECOND[1], uid=True) or []], "few"):
                            c = build_case(h, 1, m, td, 0, "1/320000")
                            if c:
                                out.append(c)
                if d <= 2:
                    # the same history with every timestamp at +09:00 / -05:00 (own date != UTC date), to-dates on the own dates
                    for tz in (540, -300):
                        s1z = mat(h, "chrono", tz)
                        s2z = mat(SECOND[1], "chrono", tz)
                        for td in to_dates([s1z or [], s2z or []], "all"):
                            c = build_case(h, 1, "fifo", td, tz)
                            if c:
                                out.append(c)
    return out


def worker(chunk: List[Dict[str, Any]]) -> Stats:
    st = Stats()
    for c in chunk:
        judge(st, c)
    return st


def init() -> None:
    from rp2verif.props import c13

    c13.init()


def main(tier: str, budget_s: Optional[float] = None) -> int:
    t0 = time.time()
    deadline = t0 + (budget_s or (270 if tier == "quick" else 3300))
    all_cases = cases(tier)
    n = max(1, min(len(all_cases), common.NPROC * 8))
    chunks = [all_cases[i::n] for i in range(n)]
    results, done = common.pmap(worker, chunks, deadline=deadline, init=init)
    total = Stats()
    for r in results:
        if r is not None:
            total.merge(r)
    complete = done == len(chunks)
    new, matched = common.report(PROP, total.violations)
    coverage = {
        "evaluations": total.get("evaluations"),
        "distinct_nontrivial": total.get("distinct_nontrivial"),
        "cases_planned": len(all_cases),
        "asset_rows_compared": total.get("asset_rows"),
        "asset_exchange_rows_compared": total.get("exchange_rows"),
        "rule": (
            "asset B1 = every history up to depth 3 over an 11-symbol alphabet on 3 accounts (2 exchanges x 2 holders: purchases, income, sales with "
            "and without fee, transfers with and without fee across holders) in which no account is ever overdrawn; x second asset (none / 2 fixed "
            "multi-holder histories) x method x to-date (none, each year end, each transaction day and the day before; fewer at depth 3 in the quick "
            "tier); depth <= 2 also with every timestamp at +09:00 / -05:00 (own date != UTC date). One evaluation = one real open_positions generation read back. non-trivial = at least 2 (exchange, holder) rows"
        ),
        "alphabet": [H.sym_str(s) for s in SYMBOLS],
        "exhaustive": bool(complete),
        "violations_total": total.get("violations_total"),
        "known_finding_hits": matched,
        "samples": total.samples[:5],
    }
    common.write_evidence(PROP, tier, LEVEL, coverage, time.time() - t0, new, assumptions=[
        "balances come from a reference replay of the input rows; the consumed part of each lot comes from the computed gain/loss fractions (C01/C02 judge those)",
        "report cells are doubles: compared at 1e-10 relative",
    ])
    print(f"{PROP} {tier}: evaluations={total.get('evaluations')} of {len(all_cases)} asset_rows={total.get('asset_rows')} exchange_rows={total.get('exchange_rows')} "
          f"violations={total.get('violations_total')} (unlisted {new}) exhaustive={complete} wall={time.time() - t0:.1f}s")
    return 1 if new else 0


def replay(path: str) -> int:
    import json
    import multiprocessing as mp

    from rp2verif.lotrun import _to_tuple

    with open(path, encoding="utf-8") as f:
        p = json.load(f)
    c = p["case"]
    case = build_case(_to_tuple(c["hist"]), c["second"], c["schedule_name"], date.fromisoformat(c["to"]) if c["to"] else None, c.get("tz", 0), Fraction(c.get("price_scale", "1")))
    assert case is not None
    if c.get("alias"):
        case = alias_exchange(case)
    ctx = mp.get_context("fork")
    with ctx.Pool(1, initializer=init) as pool:
        st = pool.apply(worker, ([case],))
    if st.violations:
        print(f"VIOLATION property={PROP} replay={path}\n  {st.violations[0]['what']}")
        return 1
    print(f"replay: {path}: property {PROP} holds on this case")
    return 0
