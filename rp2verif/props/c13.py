"""C13 - the full report shows every transaction and gain/loss fraction exactly once, with the computed values.

Generator seam: for every case the real rp2_full_report plugin runs in a forked child on ComputedData objects produced by
the real pipeline; the written .ods is read back and compared cell by cell with a rendering of those ComputedData.
"""
from __future__ import annotations

import time
from typing import Any, Dict, List, Optional, Tuple

from rp2verif import common
from rp2verif import frdriver as D
from rp2verif.common import Stats

PROP = "C13"
LEVEL = "exploration"

LANG_SLICE = [("us", "en"), ("jp", "en"), ("jp", "kl"), ("es", "es"), ("ie", "en_IE"), ("generic", "en")]


def judge(st: Stats, case: Dict[str, Any]) -> None:
    from rp2verif import fullreport as FR
    from rp2verif.seams import generator as G

    st.inc("evaluations")
    res = G.run(case)
    res["lang"] = "en" if case["lang"] in ("en", "en_IE") else case["lang"]
    payload = {"case": D.jsonable(case)}
    tag = D.case_str(case)
    if res["error"]:
        sig = f"C13 no report: {res['stage']} / {res['error'].split(':')[0]} / {res.get('where', '')}"
        st.violation(dict(payload, signature=sig, what=f"{tag} :: {res['stage']}: {res['error'][:200]}"))
        return
    problems = FR.check_c13(case, res)
    shown = sum(len(d["detail"]) for d in res["dumps"].values())
    rows = sum(len(d["in_rows"]) + len(d["out_rows"]) + len(d["intra_rows"]) for d in res["dumps"].values())
    st.inc("cells_rows_compared", shown + rows)
    if len(res["dumps"]) >= 2 or case["from"] or case["to"]:
        st.inc("distinct_nontrivial")
    if problems:
        first = problems[0]
        what = first.split(":")[0]
        # signature: sheet kind / table / column, without asset names and row numbers
        import re

        sig = re.sub(r"\b(B[123]|row \d+|line \d+|\(.*?\))", "", what)
        st.violation(dict(payload, signature=f"C13 report != computed / {' '.join(sig.split())}", what=f"{tag} :: {first}", problems=problems[:8]))
    else:
        st.sample({"case": tag, "transactions_shown": rows, "fractions_shown": shown}, cap=1)


# longer hand-picked histories: a lot partially consumed, another one exhausted, the first one consumed again (under lifo / hifo);
# one lot consumed by disposals on both sides of the one-year threshold; a sale over three lots
RICH = [
    ((D.H.B(1, 2), "="), (D.H.S(1), "d"), (D.H.B(2, 1), "d"), (D.H.S(2), "d")),
    ((D.H.B(2, 2), "="), (D.H.S(1), "200d"), (D.H.B(1, 2), "d"), (D.H.S(2), "200d"), (D.H.S(1), "d")),
    ((D.H.B(1, 2), "="), (D.H.B(3, 2, fee="1/4"), "200d"), (D.H.B(2, 1), "200d"), (D.H.S(2), "d"), (D.H.M(2, 1), "y"), (D.H.S(1, typ="GIFT"), "d")),
    ((D.H.E(1, 1), "="), (D.H.B(2, 1), "d"), (D.H.B(1, 2), "d"), (D.H.S(2), "y"), (D.H.S(1, typ="FEE"), "d"), (D.H.S(1), "d")),
]


def cases(tier: str) -> List[Dict[str, Any]]:
    out: List[Dict[str, Any]] = []
    for h in RICH:
        specs = D.specs_for(h, "a")
        assert specs is not None
        for second in (None, 0, 1):
            s2 = D.specs_for(D.SECOND[second], "b") if second is not None else []
            dates = D.event_dates([specs, s2 or []])
            for w in D.windows(dates, "few"):
                for sch in ("fifo", "lifo", "hifo", "fifo->hifo@2021"):
                    c = D.make_case(h, second, sch, w)
                    if c:
                        out.append(c)
    deep = 3
    for h in D.histories(deep):
        specs = D.specs_for(h, "a")
        if specs is None:
            continue
        n = len(h)
        idx = sum(ord(c) for c in str(h)) % 3
        if n <= 2:
            for second in (0, 1, 2):
                s2 = D.specs_for(D.SECOND[second], "b")
                dates = D.event_dates([specs, s2 or []])
                for w in D.windows(dates, "few"):
                    for sch in ("fifo", "hifo", "fifo->hifo@2021"):
                        if tier == "quick" and sch != "fifo" and second != idx:
                            continue
                        c = D.make_case(h, second, sch, w)
                        if c:
                            out.append(c)
        else:
            s2 = D.specs_for(D.SECOND[idx], "b")
            dates = D.event_dates([specs, s2 or []])
            wins = D.windows(dates, "few")
            schs = ("fifo", "hifo", "fifo->hifo@2021")
            if tier == "quick":
                # one (window, method) per depth-3 history, rotating through all of them
                k = sum(ord(c) for c in str(h))
                wins = [wins[k % len(wins)]]
                schs = (schs[(k // 7) % 3],)
            for w in wins:
                for sch in schs:
                    c = D.make_case(h, idx, sch, w)
                    if c:
                        out.append(c)
        if n <= 2 or tier == "thorough":
            # the same history with dust-sized amounts (x 1.236e-8: every amount, also a quarter of one, still has at most 11 decimals) and sub-cent prices: what the report prints must
            # still equal the computed values to double precision
            for sc, ps in (("1236/100000000000", "1"), ("1236/100000000000", "7/1000"), ("1", "123456789/100000")):
                c = D.make_case(h, idx if n == 2 else None, ("fifo", "hifo")[n % 2], (None, None), scale=sc, price_scale=ps)
                if c:
                    out.append(c)
        if n <= 2:
            # all timestamps at +09:00 / -05:00 (own date != UTC date), windows on the own dates
            for tz in (540, -300):
                specs_tz = D.specs_for(h, "a", tz=tz)
                s2_tz = D.specs_for(D.SECOND[idx], "b", tz=tz)
                for w in D.windows(D.event_dates([specs_tz or [], s2_tz or []]), "few"):
                    c = D.make_case(h, idx, "fifo", w, tz=tz)
                    if c:
                        out.append(c)
                # ... and around New Year (own year != UTC year)
                specs_ny = D.specs_for(h, "a", tz=tz, new_year=True)
                s2_ny = D.specs_for(D.SECOND[idx], "b", tz=tz, new_year=True)
                for w in D.windows(D.event_dates([specs_ny or [], s2_ny or []]), "few")[:4]:
                    c = D.make_case(h, idx, "fifo", w, tz=tz, new_year=True)
                    if c:
                        out.append(c)
        if n <= 2:
            # country / language slice, single asset and two assets, chronological sheet order too
            for cc, lang in LANG_SLICE:
                for second in (None, idx):
                    dates = D.event_dates([specs])
                    for w in D.windows(dates, "three" if tier == "thorough" or n == 1 else "none"):
                        c = D.make_case(h, second, "fifo", w, country=cc, lang=lang, row_order="chrono")
                        if c:
                            out.append(c)
    # the data of the 9 inputs bundled with RP2 (up to 4 assets and 41 transactions per sheet, exchange-supplied fiat values, 4 exchanges x 2 holders)
    out += D.bundled_cases(["rp2_full_report"], methods=("fifo", "hifo") if tier == "quick" else ("fifo", "lifo", "hifo", "lofo"))
    return out


def worker(chunk: List[Dict[str, Any]]) -> Stats:
    st = Stats()
    for c in chunk:
        judge(st, c)
    return st


def init() -> None:
    import logging

    from rp2verif.seams import generator as G

    G.preimport()
    logging.disable(logging.CRITICAL)
    from rp2verif.seams import compute as C

    for cc in ("us", "jp", "es", "ie", "generic"):  # warm the per-process caches the forked children inherit
        C.configuration(cc, allow_negative_balances=True)
    for m in ("fifo", "lifo", "hifo", "lofo"):
        C.method(m)


def main(tier: str, budget_s: Optional[float] = None) -> int:
    t0 = time.time()
    deadline = t0 + (budget_s or (270 if tier == "quick" else 3300))
    all_cases = cases(tier)
    n = max(1, min(len(all_cases), common.NPROC * 16))
    chunks = [all_cases[i::n] for i in range(n)]
    results, done = common.pmap(worker, chunks, deadline=deadline, init=init)
    total = Stats()
    for r in results:
        if r is not None:
            total.merge(r)
    complete = done == len(chunks)
    new, matched = common.report(PROP, total.violations)
    coverage = {
        "evaluations": total.get("evaluations"),
        "distinct_nontrivial": total.get("distinct_nontrivial"),
        "cases_planned": len(all_cases),
        "report_rows_compared": total.get("cells_rows_compared"),
        "rule": (
            "asset B1 = every valid history up to depth 3 over the 9-symbol multi-year alphabet (unique id and note on every row, sheet order "
            "reversed w.r.t. time), asset B2 = fixed histories with the same spreadsheet row numbers; depth <= 2: x 3 second assets x 10 windows "
            "(none / from / to / both, incl. empty and one-day windows) x fifo / hifo / fifo->hifo schedule, and x 6 country-language pairs; "
            "depth 3: x windows x methods per tier; plus 4 hand-picked histories of 4-6 transactions x 3 second assets x 10 windows x fifo / lifo / hifo / schedule. One evaluation = one real generator run read back and compared (In/Out/Intra tables, summary, "
            "balances and holder totals, average price, detail rows with k/n labels, Summary sheet, Legend). non-trivial = two assets or a filter"
        ),
        "alphabet": [D.H.sym_str(s) for s in D.SYMBOLS],
        "exhaustive": bool(complete),
        "chunks_done": done, "chunks": len(chunks),
        "violations_total": total.get("violations_total"),
        "known_finding_hits": matched,
        "samples": total.samples[:5],
    }
    common.write_evidence(PROP, tier, LEVEL, coverage, time.time() - t0, new, assumptions=[
        "plain report cells are doubles: compared at 1e-11 relative with the exact computed value; values inside HYPERLINK are exact text",
        "the oracle compares the report with the ComputedData handed to the generator (C01-C10 judge the ComputedData itself)",
    ])
    print(f"{PROP} {tier}: evaluations={total.get('evaluations')} of {len(all_cases)} rows_compared={total.get('cells_rows_compared')} "
          f"violations={total.get('violations_total')} (unlisted {new}) exhaustive={complete} wall={time.time() - t0:.1f}s")
    return 1 if new else 0


def replay(path: str) -> int:
    import json
    import multiprocessing as mp

    with open(path, encoding="utf-8") as f:
        p = json.load(f)
    case = D.from_json(p["case"])
    ctx = mp.get_context("fork")
    with ctx.Pool(1, initializer=init) as pool:
        st = pool.apply(worker, ([case],))
    if st.violations:
        print(f"VIOLATION property={PROP} replay={path}\n  {st.violations[0]['what']}")
        return 1
    print(f"replay: {path}: property {PROP} holds on this case")
    return 0
