"""C12 - malformed or contradictory input is rejected, never silently processed.

Fault enumeration at every position:
 (a1) every sequence of row kinds up to a length bound against a reference acceptor of the documented sheet grammar;
 (a2) every single (thorough: every pair of) edit of well-formed sheets;
 (b)  every documented field fault class at every row x field of a two-asset base input;
 (c)  every config fault; (d) every command-line fault;
 (e)  one instance of every fault class at every table, all of (c) and (d), through the REAL command line:
      exit status != 0, an error message, no report file.
(a)-(c) run on the parser seam (parse_ods / Configuration), (d)-(e) on the CLI seam. This process never imports rp2.
"""
from __future__ import annotations

import itertools
import os
import time
from typing import Any, Dict, Iterator, List, Optional, Sequence, Tuple

from rp2verif import common
from rp2verif import sheets as S
from rp2verif.common import Stats

PROP = "C12"
LEVEL = "fault_enumeration"

KINDS = ("b", "I", "O", "T", "E", "h", "i", "o", "t", "f", "z")
KIND_NAMES = {"b": "blank", "I": "IN", "O": "OUT", "T": "INTRA", "E": "TABLE END", "h": "header", "i": "IN row", "o": "OUT row", "t": "INTRA row",
              "f": "IN row with crypto fee", "z": "row starting with the number 0"}
TABLE_OF = {"I": "in", "O": "out", "T": "intra", "i": "in", "o": "out", "t": "intra", "f": "in", "z": "no table"}
LAYOUT = S.canonical_layout()
WIDTH = S.ncols(LAYOUT)


def good_row(table: str, n: int, asset: str = "B1") -> Dict[str, Any]:
    ts = f"2020-{1 + n % 12:02d}-{1 + n % 28:02d} 10:{n % 60:02d}:00+00:00"
    if table == "in":
        return {"timestamp": ts, "asset": asset, "exchange": "X1", "holder": "H1", "transaction_type": "BUY", "spot_price": "100", "crypto_in": "5",
                "unique_id": f"i{n}"}
    if table == "out":
        return {"timestamp": ts.replace("2020", "2021"), "asset": asset, "exchange": "X1", "holder": "H1", "transaction_type": "SELL", "spot_price": "200",
                "crypto_out_no_fee": "0.5", "crypto_fee": "0", "unique_id": f"o{n}"}
    return {"timestamp": ts.replace("2020", "2021"), "asset": asset, "from_exchange": "X1", "from_holder": "H1", "to_exchange": "X2", "to_holder": "H1",
            "spot_price": "150", "crypto_sent": "0.25", "crypto_received": "0.25", "unique_id": f"t{n}"}


def kind_cells(kind: str, n: int) -> List[Any]:
    if kind == "b":
        return [None] * WIDTH
    if kind in "IOT":
        return [S.KEYWORD[TABLE_OF[kind]]] + [None] * (WIDTH - 1)
    if kind == "E":
        return [S.TABLE_END] + [None] * (WIDTH - 1)
    if kind == "h":
        return S.header_cells("in", LAYOUT, WIDTH)
    if kind == "z":
        # a row of figures whose first cell holds the NUMBER 0 (a hand-made totals / difference row): not blank, not a keyword, not a transaction
        return [0] + S.row_cells("out", LAYOUT, good_row("out", n), WIDTH)[1:]
    if kind == "f":
        # an acquisition whose fee was paid in crypto: the parser models it as the acquisition plus an artificial fee-only disposal
        return S.row_cells("in", LAYOUT, dict(good_row("in", n), crypto_fee="0.01"), WIDTH)
    return S.row_cells(TABLE_OF[kind], LAYOUT, good_row(TABLE_OF[kind], n), WIDTH)


def acceptor(seq: Sequence[str]) -> Tuple[str, Dict[str, List[int]]]:
    """Reference acceptor of the documented sheet grammar  blank* (BEGIN header row* END blank*)*.
    Returns ('accept' | 'reject' | 'unspecified', {table: [1-based row numbers of its data rows]})."""
    state = "out"  # out | begun | in
    cur: Optional[str] = None
    rows: Dict[str, List[int]] = {"in": [], "out": [], "intra": []}
    seen = set()
    verdict_reject = False
    unspecified = False
    for idx, k in enumerate(seq):
        rownum = idx + 1
        if state == "out":
            if k == "b":
                continue
            if k in "IOT":
                t = TABLE_OF[k]
                if rows[t]:
                    verdict_reject = True  # repeated table whose earlier instance holds rows
                    break
                if t in seen:
                    unspecified = True  # repeated table, earlier instance empty: not classified by the documentation
                seen.add(t)
                state, cur = "begun", t
                continue
            verdict_reject = True  # TABLE END, header or data outside a table
            break
        if state == "begun":
            assert cur is not None
            if k == "b" or k in "IOT":
                verdict_reject = True  # blank first cell inside a table / nested table
                break
            if k == "E":
                unspecified = True  # a table without a header line
                state, cur = "out", None
                continue
            if k == "h":
                state = "in"
                continue
            if TABLE_OF[k] == cur:
                verdict_reject = True  # data with no header
                break
            unspecified = True  # a row of another table's shape where the header is expected: RP2 takes it for the header
            state = "in"
            continue
        # inside a table, after its header
        assert cur is not None
        if k == "b" or k in "IOT":
            verdict_reject = True
            break
        if k == "E":
            state, cur = "out", None
            continue
        if k == "h":
            verdict_reject = True  # text where numbers are required
            break
        if TABLE_OF[k] == cur:
            rows[cur].append(rownum)
            continue
        verdict_reject = True  # a row of another table's shape
        break
    if not verdict_reject:
        if state != "out":
            verdict_reject = True  # missing TABLE END
        elif not rows["in"]:
            verdict_reject = True  # missing or empty IN table
    if verdict_reject:
        return "reject", rows
    if unspecified:
        return "unspecified", rows
    return "accept", rows


def parse_sequence(seq: Sequence[str]) -> Tuple[Optional[Dict[str, List[int]]], Optional[BaseException]]:
    from rp2verif.seams import parser as P

    cfg = P.config_for(LAYOUT)
    matrix = [kind_cells(k, i) for i, k in enumerate(seq)]
    doc = P.build_doc({"B1": matrix})
    try:
        data = P.parse_ods(cfg, "B1", doc)
    except Exception as exc:  # pylint: disable=broad-except
        return None, exc
    got = {
        "in": sorted(t.row for t in data.unfiltered_in_transaction_set),
        "out": sorted(t.row for t in data.unfiltered_out_transaction_set if t.row > 0),
        "artificial_fee_rows": sum(1 for t in data.unfiltered_out_transaction_set if t.row < 0),
        "intra": sorted(t.row for t in data.unfiltered_intra_transaction_set),
    }
    return got, None


def judge_sequence(st: Stats, seq: Sequence[str], origin: str) -> None:
    st.inc("evaluations")
    st.inc(f"{origin}_evaluations")
    verdict, rows = acceptor(seq)
    got, err = parse_sequence(seq)
    text = " | ".join(KIND_NAMES[k] for k in seq)
    base = {"kind": "structure", "sequence": "".join(seq), "origin": origin}
    if verdict == "unspecified":
        st.inc("structure_unspecified")
        return
    if verdict == "reject":
        st.inc("structure_must_reject")
        if err is None:
            st.violation(dict(base, signature="C12 structure: broken sheet accepted", what=f"[{origin}] sheet rows: {text} :: accepted, parsed rows {got}"))
        else:
            st.inc(f"rejected_with_{type(err).__name__}")
        return
    st.inc("structure_must_accept")
    st.inc("distinct_nontrivial")
    if err is not None:
        st.violation(dict(base, signature=f"C12 structure: well-formed sheet rejected / {type(err).__name__}",
                          what=f"[{origin}] sheet rows: {text} :: rejected: {type(err).__name__}: {str(err)[:200]}"))
    elif {k: v for k, v in got.items() if k != "artificial_fee_rows"} != rows or got["artificial_fee_rows"] != sum(1 for k in seq if k == "f"):
        st.violation(dict(base, signature="C12 structure: rows skipped or read twice", what=f"[{origin}] sheet rows: {text} :: parsed rows {got} != data rows {rows}"))
    else:
        st.sample({"sheet rows": text, "verdict": "accept", "parsed rows": got}, cap=1)


# ------------------------------------------------------------------------------------------------------------------
# (a1) all sequences, (a2) edits of well-formed sheets


def a1_worker(task: Tuple[str, int]) -> Stats:
    prefix, length = task
    st = Stats()
    for tail in itertools.product(KINDS, repeat=length - len(prefix)):
        judge_sequence(st, tuple(prefix) + tail, "a1")
    return st


def base_sheets() -> List[str]:
    out = []
    tables = {"I": "i", "O": "o", "T": "t"}
    for r in (1, 2, 3):
        for order in itertools.permutations("IOT", r):
            if "I" not in order:
                continue
            for nrows, gap in ((1, ""), (2, "b")):
                seq = ""
                for j, b in enumerate(order):
                    if j:
                        seq += gap
                    seq += b + "h" + tables[b] * nrows + "E"
                out.append(seq)
    out.append("bb" + "Ihii" + "E" + "bbb" + "OhoE" + "b")
    out.append("IhfE")       # an IN table made only of crypto-fee acquisitions
    out.append("IhffEOhoE")
    out.append("IhifEThtE")
    return out


def edits(seq: str) -> Iterator[str]:
    n = len(seq)
    for i in range(n):
        yield seq[:i] + seq[i + 1:]  # delete
        for k in KINDS:
            if k != seq[i]:
                yield seq[:i] + k + seq[i + 1:]  # replace
    for i in range(n + 1):
        for k in KINDS:
            yield seq[:i] + k + seq[i:]  # insert


def a2_worker(task: Tuple[Any, ...]) -> Stats:
    """All sequences at edit distance <= order from base; sharded by a stable hash of the resulting sequence so that every
    distinct sequence is evaluated exactly once per base."""
    import zlib

    base, order = task[0], task[1]
    shard, nshards = (task[2], task[3]) if len(task) > 2 else (0, 1)
    st = Stats()
    seen = set()
    for e1 in edits(base):
        cands = [e1] if order == 1 else list(edits(e1))
        for e in cands:
            if e in seen or not e:
                continue
            seen.add(e)
            if nshards > 1 and zlib.crc32(e.encode()) % nshards != shard:
                continue
            judge_sequence(st, tuple(e), f"a2.{order}")
    return st


# ------------------------------------------------------------------------------------------------------------------
# (b) field faults at every row x field


def base_input() -> Dict[str, List[Tuple[str, List[Dict[str, Any]]]]]:
    out: Dict[str, List[Tuple[str, List[Dict[str, Any]]]]] = {}
    for asset in ("B1", "B2"):
        ins = [good_row("in", 1, asset), dict(good_row("in", 2, asset), transaction_type="INTEREST", crypto_in="1", fiat_fee=None),
               dict(good_row("in", 3, asset), crypto_fee="0.01", fiat_in_no_fee="500", fiat_in_with_fee="501")]
        ins[0]["fiat_fee"] = "2"
        outs = [dict(good_row("out", 4, asset), crypto_fee="0.001", crypto_out_with_fee="0.501", fiat_out_no_fee="100", fiat_fee="0.2"),
                dict(good_row("out", 5, asset), transaction_type="FEE", crypto_out_no_fee="0", crypto_fee="0.002")]
        intras = [dict(good_row("intra", 6, asset), crypto_received="0.24"), dict(good_row("intra", 7, asset), spot_price=None),
                  dict(good_row("intra", 9, asset), crypto_sent="0.002", crypto_received="0.001")]  # a fee of a thousandth of a coin is a fee
        out[asset] = [("in", ins), ("out", outs), ("intra", intras)]
    out["B3"] = [("in", [good_row("in", 8, "B3")])]  # a third configured asset (its name is what "asset differs from its sheet" writes into B1 / B2 rows)
    return out


def field_faults(table: str, row: Dict[str, Any]) -> Iterator[Tuple[str, str, Dict[str, Any]]]:
    """(field, fault class, changed cells) for every documented fault class that applies to this row."""
    def f(field: str, cls: str, value: Any) -> Tuple[str, str, Dict[str, Any]]:
        return field, cls, {field: value}

    yield f("asset", "unknown asset", "ZZZ")
    yield f("asset", "asset differs from its sheet", "B3")
    yield f("asset", "empty mandatory cell", None)
    for fld in (("exchange", "holder") if table != "intra" else ("from_exchange", "from_holder", "to_exchange", "to_holder")):
        yield f(fld, "unknown exchange/holder", "ZZZ")
        yield f(fld, "unknown exchange/holder (case)", str(row[fld]).lower())
        yield f(fld, "empty mandatory cell", None)
        yield f(fld, "number where text is required", 3.0)
    yield f("timestamp", "timestamp without time zone", str(row["timestamp"])[:19])
    yield f("timestamp", "timestamp without time zone", str(row["timestamp"])[:10])
    yield f("timestamp", "unparsable timestamp", "not a date")
    yield f("timestamp", "unparsable timestamp", "2020-13-45 10:00:00+00:00")
    yield f("timestamp", "empty mandatory cell", None)
    yield f("timestamp", "number where text is required", 43831.5)
    if table == "in":
        for bad in ("SELL", "FEE", "LOST", "MOVE"):
            yield f("transaction_type", "type not allowed in this table", bad)
        yield f("transaction_type", "unknown transaction type", "FOO")
        yield f("transaction_type", "empty mandatory cell", None)
        yield f("spot_price", "unresolved DaLI value (__unknown) where a number is required", "__unknown")
        yield f("fiat_in_no_fee", "unresolved DaLI value (__unknown) where a number is required", "__unknown")
        for fld in ("spot_price", "crypto_in"):
            yield f(fld, "zero where a positive number is required", "0")
            yield f(fld, "negative number", "-1")
            yield f(fld, "text where a number is required", "abc")
            yield f(fld, "empty mandatory cell", None)
        for fld in ("fiat_in_no_fee", "fiat_in_with_fee"):
            yield f(fld, "zero where a positive number is required", "0")
            yield f(fld, "negative number", "-1")
            yield f(fld, "text where a number is required", "abc")
        for fld in ("crypto_fee", "fiat_fee"):
            yield f(fld, "negative number", "-1")
            yield f(fld, "text where a number is required", "abc")
        yield "crypto_fee+fiat_fee", "both crypto and fiat fee on an acquisition", {"crypto_fee": "0.01", "fiat_fee": "1"}
    elif table == "out":
        for bad in ("BUY", "INTEREST", "AIRDROP", "MOVE", "WAGES"):
            yield f("transaction_type", "type not allowed in this table", bad)
        yield f("transaction_type", "unknown transaction type", "FOO")
        yield f("transaction_type", "empty mandatory cell", None)
        fee_typed = str(row["transaction_type"]).upper() == "FEE"
        if not fee_typed:
            yield f("spot_price", "zero where a positive number is required", "0")
            yield f("crypto_out_no_fee", "zero where a positive number is required", "0")
        else:
            yield f("crypto_out_no_fee", "fee-typed row with an amount besides the fee", "1")
            yield f("crypto_fee", "zero where a positive number is required", "0")
        yield f("crypto_out_no_fee", "unresolved DaLI value (__unknown) where a number is required", "__unknown")
        for fld in ("spot_price", "crypto_out_no_fee", "crypto_fee"):
            yield f(fld, "negative number", "-1")
            yield f(fld, "text where a number is required", "abc")
            yield f(fld, "empty mandatory cell", None)
        for fld in ("crypto_out_with_fee", "fiat_out_no_fee"):
            yield f(fld, "zero where a positive number is required", "0")
            yield f(fld, "negative number", "-1")
            yield f(fld, "text where a number is required", "abc")
        yield f("fiat_fee", "negative number", "-1")
        yield f("fiat_fee", "text where a number is required", "abc")
    else:
        has_fee = row["crypto_sent"] != row["crypto_received"]
        if has_fee:
            yield f("spot_price", "zero spot price on a fee-bearing transfer", "0")
            yield f("spot_price", "zero spot price on a fee-bearing transfer", None)
        yield f("spot_price", "negative number", "-1")
        yield f("spot_price", "text where a number is required", "abc")
        yield f("crypto_sent", "zero where a positive number is required", "0")
        from fractions import Fraction

        from rp2verif.history import dec

        yield f("crypto_sent", "more received than sent", dec(Fraction(str(row["crypto_received"])) / 2))
        for fld in ("crypto_sent", "crypto_received"):
            yield f(fld, "negative number", "-1")
            yield f(fld, "text where a number is required", "abc")
            yield f(fld, "empty mandatory cell", None)
        yield f("crypto_received", "more received than sent", "9")


def all_field_fault_cases() -> List[Dict[str, Any]]:
    cases = []
    base = base_input()
    for asset in ("B1", "B2"):
        for ti, (table, rows) in enumerate(base[asset]):
            for ri, row in enumerate(rows):
                for field, cls, change in field_faults(table, row):
                    cases.append({"asset": asset, "table": table, "row_index": ri, "field": field, "class": cls, "change": change})
    return cases


def faulty_sheets(case: Optional[Dict[str, Any]]) -> Dict[str, List[List[Any]]]:
    base = base_input()
    sheets = {}
    for asset, tables in base.items():
        tabs = []
        for table, rows in tables:
            rows2 = [dict(r) for r in rows]
            if case and case["asset"] == asset and case["table"] == table:
                rows2[case["row_index"]].update(case["change"])
            tabs.append((table, rows2))
        matrix, _ = S.sheet_rows(tabs, LAYOUT, width=WIDTH)
        sheets[asset] = matrix
    return sheets


def b_worker(chunk: List[Dict[str, Any]]) -> Stats:
    from rp2verif.seams import parser as P

    st = Stats()
    cfg = P.config_for(LAYOUT)
    # the unmodified base input must parse (otherwise every "rejection" below would be vacuous)
    doc0 = P.build_doc(faulty_sheets(None))
    for a in ("B1", "B2"):
        P.parse_ods(cfg, a, doc0)
    for case in chunk:
        st.inc("evaluations")
        st.inc("field_fault_evaluations")
        st.inc("distinct_nontrivial")
        doc = P.build_doc(faulty_sheets(case))
        try:
            P.parse_ods(cfg, case["asset"], doc)
        except Exception as exc:  # pylint: disable=broad-except
            st.inc(f"rejected_with_{type(exc).__name__}")
            st.sample({"fault": case, "rejected_with": f"{type(exc).__name__}: {str(exc)[:120]}"}, cap=1)
            continue
        st.violation(dict(case, kind="field", signature=f"C12 field fault accepted / {case['table']}.{case['field']} / {case['class']}",
                          what=f"sheet {case['asset']}, {case['table'].upper()} row {case['row_index']}: {case['class']} ({case['change']}) was accepted by parse_ods"))
    return st


# ------------------------------------------------------------------------------------------------------------------
# (c) config faults, (d) command-line faults


def config_faults() -> List[Tuple[str, str]]:
    """(fault class, ini text)"""
    good = S.ini_text(LAYOUT)
    lines = good.splitlines()

    def without_section(name: str) -> str:
        out, skip = [], False
        for l in lines:
            if l.startswith("["):
                skip = l.strip() == f"[{name}]"
            if not skip:
                out.append(l)
        return "\n".join(out)

    def replace_line(prefix: str, new: Optional[str]) -> str:
        out = []
        done = False
        for l in lines:
            if not done and l.startswith(prefix):
                done = True
                if new is not None:
                    out.append(new)
                continue
            out.append(l)
        return "\n".join(out)

    def in_section(name: str, extra: str, drop: Sequence[str] = ()) -> str:
        out = []
        cur = None
        for l in lines:
            if l.startswith("["):
                cur = l.strip()[1:-1]
            if cur == name and l.split("=")[0].strip() in drop:
                continue
            out.append(l)
            if l.strip() == f"[{name}]":
                out.append(extra)
        return "\n".join(out)

    faults: List[Tuple[str, str]] = []
    for sec in ("general", "in_header", "out_header", "intra_header"):
        faults.append((f"section [{sec}] missing", without_section(sec)))
        faults.append((f"section [{sec}] duplicated", good + f"\n[{sec}]\n" + ("assets = B1\nexchanges = X1\nholders = H1\n" if sec == "general" else "timestamp = 0\n")))
    faults.append(("unknown section", good + "\n[foo]\nbar = 1\n"))
    for fld in ("assets", "exchanges", "holders"):
        faults.append((f"[general] {fld} missing", replace_line(f"{fld} =", None)))
        faults.append((f"[general] {fld} empty", replace_line(f"{fld} =", f"{fld} =")))
        faults.append((f"[general] {fld} with an empty element", replace_line(f"{fld} =", f"{fld} = A1,, A2")))
        faults.append((f"[general] {fld} with a duplicate element", replace_line(f"{fld} =", f"{fld} = B1, X1, H1, B1")))
    for sec in ("in_header", "out_header", "intra_header"):
        faults.append((f"[{sec}] two fields on the same column", in_section(sec, "notes = 0", drop=("notes",))))
        faults.append((f"[{sec}] negative column", in_section(sec, "asset = -1", drop=("asset",))))
        faults.append((f"[{sec}] non-integer column", in_section(sec, "unique_id = x", drop=("unique_id",))))
        faults.append((f"[{sec}] unknown header name", in_section(sec, "foo = 20")))
        faults.append((f"[{sec}] empty section", without_section(sec) + f"\n[{sec}]\n"))
    faults.append(("deprecated JSON configuration", '{"in_header": {"timestamp": 0}, "out_header": {}, "intra_header": {}, "assets": ["B1"], "exchanges": ["X1"], "holders": ["H1"]}'))
    faults.append(("[accounting_methods] non-integer year", good + "\n[accounting_methods]\ntwenty = fifo\n"))
    faults.append(("[accounting_methods] empty section", good + "\n[accounting_methods]\n"))
    return faults


def c_worker(chunk: List[Tuple[str, str]]) -> Stats:
    from rp2.configuration import Configuration

    from rp2verif.seams import compute as C
    from rp2verif.seams import parser as P

    st = Stats()
    # the unmodified configuration must load
    Configuration(P.write_ini(S.ini_text(LAYOUT)), C.country("us"))
    for cls, text in chunk:
        st.inc("evaluations")
        st.inc("config_fault_evaluations")
        st.inc("distinct_nontrivial")
        path = P.write_ini(text)
        try:
            Configuration(path, C.country("us"))
        except Exception as exc:  # pylint: disable=broad-except
            st.inc(f"rejected_with_{type(exc).__name__}")
            continue
        st.violation({"kind": "config", "class": cls, "ini": text, "signature": f"C12 config fault accepted / {cls}", "what": f"malformed config accepted by Configuration(): {cls}"})
    return st


def cli_cases(tier: str) -> List[Dict[str, Any]]:
    """Everything that goes through the real command line. Each case: sheets + ini + argv options + why it must fail."""
    cases: List[Dict[str, Any]] = []
    good_ini = S.ini_text(LAYOUT)
    good = faulty_sheets(None)
    # (e1) one instance of every field fault class at every table, in the first and in the LAST processed asset
    seen = set()
    for case in all_field_fault_cases():
        key = (case["asset"], case["table"], case["class"])
        if tier == "thorough":
            key = (case["asset"], case["table"], case["row_index"], case["field"], case["class"], str(case["change"]))  # every single case
        if key in seen:
            continue
        seen.add(key)
        cases.append({"why": f"field fault: {case['class']} at {case['asset']}.{case['table']}.{case['field']}", "sheets": faulty_sheets(case), "ini": good_ini, "opts": [], "fault": case})
    # (e1') the same faults with date filters that exclude the faulty row from the REPORT: the input is malformed all the same
    from datetime import datetime as _dt, timedelta as _td

    base = base_input()
    last_case: Dict[Any, Dict[str, Any]] = {}
    for case in all_field_fault_cases():
        if case["field"] == "timestamp":
            continue
        key = (case["table"], case["class"])
        if key not in last_case or case["row_index"] >= last_case[key]["row_index"]:
            last_case[key] = case  # the fault sits in the LAST row of its table (of the last asset): earlier rows stay inside the window
    for case in last_case.values():
        rows = dict(base[case["asset"]])[case["table"]]
        own = _dt.fromisoformat(rows[case["row_index"]]["timestamp"]).date()
        for opts in (["-t", "2019-01-01"], ["-f", "2030-01-01"], ["-t", str(own - _td(days=1))], ["-f", str(own + _td(days=1))]):
            cases.append({"why": f"field fault outside the date window ({' '.join(opts)}): {case['class']} at {case['asset']}.{case['table']}.{case['field']}", "sheets": faulty_sheets(case),
                          "ini": good_ini, "opts": opts, "fault": case})
    # (e2) structure faults (single edits of a well-formed sheet that the acceptor says must be rejected), placed in the second asset's sheet
    struct = ["IhiEOho", "IhiEIhiE", "IhIiE", "iIhiE", "EIhiE", "IiE", "IhioE", "IhiEbo", "OhoE", "IhE", "IhiEOhoEThtEh", "IhiEOhoEThtEbI", "IhibiE", "IhiEz", "zIhiE", "IhiEzOhoE"]
    for s in struct:
        assert acceptor(tuple(s))[0] == "reject", s
        sheets = dict(good)
        sheets["B2"] = [kind_cells(k, i) for i, k in enumerate(s)]
        cases.append({"why": f"sheet structure: {' | '.join(KIND_NAMES[k] for k in s)} (sheet B2)", "sheets": sheets, "ini": good_ini, "opts": []})
    # a configured asset without a sheet
    cases.append({"why": "configured asset B2 has no sheet", "sheets": {"B1": good["B1"]}, "ini": good_ini, "opts": []})
    # (e3) config faults
    for cls, text in config_faults():
        cases.append({"why": f"config: {cls}", "sheets": good, "ini": text, "opts": []})
    cases.append({"why": "config: [in_header] without the mandatory timestamp column", "sheets": good, "ini": _drop_first(good_ini, "timestamp = 0"), "opts": []})
    cases.append({"why": "config: unknown accounting method in [accounting_methods]", "sheets": good, "ini": good_ini + "\n[accounting_methods]\n2019 = fifo\n2021 = best\n", "opts": []})
    # (d) command-line faults
    methods_ini = good_ini + "\n[accounting_methods]\n1970 = fifo\n2021 = hifo\n"
    for m in ("fifo", "lifo", "hifo", "lofo"):
        cases.append({"why": f"-m {m} together with [accounting_methods]", "sheets": good, "ini": methods_ini, "opts": ["-m", m]})
    for country, m in (("jp", "hifo"), ("es", "lifo"), ("ie", "lofo"), ("us", "best"), ("jp", "lifo")):
        cases.append({"why": f"rp2_{country} -m {m}: method not accepted by the country", "sheets": good, "ini": good_ini, "opts": ["-m", m], "country": country,
                      "extra": ["-g", "en"] if country == "jp" else []})
    cases.append({"why": "from-date after to-date", "sheets": good, "ini": good_ini, "opts": ["-f", "2021-06-01", "-t", "2021-01-01"]})
    for opt in ("-f", "-t"):
        for bad in ("2021-13-01", "01/02/2021", "yesterday"):
            cases.append({"why": f"malformed date {opt} {bad}", "sheets": good, "ini": good_ini, "opts": [opt, bad]})
    cases.append({"why": "unknown generation language", "sheets": good, "ini": good_ini, "opts": ["-g", "xx"]})
    cases.append({"why": "generation language without templates for this country", "sheets": good, "ini": good_ini, "opts": ["-g", "es"]})
    cases.append({"why": "-a with an asset that is not configured", "sheets": good, "ini": good_ini, "opts": ["-a", "ZZZ"]})
    cases.append({"why": "deprecated -l plugin option", "sheets": good, "ini": good_ini, "opts": ["-l", "rp2_full_report"]})
    cases.append({"why": "unknown option", "sheets": good, "ini": good_ini, "opts": ["--frobnicate"]})
    cases.append({"why": "input file missing", "sheets": good, "ini": good_ini, "opts": [], "input_name": "missing.ods"})
    cases.append({"why": "input file without .ods suffix", "sheets": good, "ini": good_ini, "opts": [], "input_name": "input.xlsx"})
    cases.append({"why": "input file is not a spreadsheet", "sheets": good, "ini": good_ini, "opts": [], "input_name": "garbage.ods"})
    cases.append({"why": "configuration file missing", "sheets": good, "ini": good_ini, "opts": [], "config_name": "missing.ini"})
    # account overdraft without -n (C08's "no report is produced")
    over = {a: list(m) for a, m in good.items()}
    tabs = base_input()["B2"]
    tabs = [(t, [dict(r) for r in rows]) for t, rows in tabs]
    tabs[1][1][0]["exchange"] = "X3"  # sale from an account that never received anything
    over["B2"] = S.sheet_rows(tabs, LAYOUT, width=WIDTH)[0]
    cases.append({"why": "account overdrawn without -n (sale from an empty account)", "sheets": over, "ini": good_ini, "opts": []})
    tabs2 = [(t, [dict(r) for r in rows]) for t, rows in base_input()["B2"]]
    tabs2[1][1][0].update({"crypto_out_no_fee": "50", "crypto_out_with_fee": None, "fiat_out_no_fee": None})
    over2 = dict(good)
    over2["B2"] = S.sheet_rows(tabs2, LAYOUT, width=WIDTH)[0]
    cases.append({"why": "more sold than ever acquired", "sheets": over2, "ini": good_ini, "opts": []})
    cases.append({"why": "more sold than ever acquired, with -n", "sheets": over2, "ini": good_ini, "opts": ["-n"]})
    for i, c in enumerate(cases):
        c["id"] = i
    return cases


def _drop_first(text: str, line: str) -> str:
    out, done = [], False
    for l in text.splitlines():
        if not done and l == line:
            done = True
            continue
        out.append(l)
    return "\n".join(out)


def run_cli_case(case: Dict[str, Any], keep: bool = False) -> Tuple[Any, str]:
    from rp2verif.seams import cli

    ws = cli.Workspace(f"c12-{case.get('id', 'x')}")
    ini = ws.write("config.ini", case["ini"])
    ods = cli.write_ods(os.path.join(ws.inp, "input.ods"), case["sheets"])
    if case.get("input_name") == "garbage.ods":
        ods = ws.write("garbage.ods", "this is not a zip archive")
    elif case.get("input_name") == "input.xlsx":
        os.rename(ods, os.path.join(ws.inp, "input.xlsx"))
        ods = os.path.join(ws.inp, "input.xlsx")
    elif case.get("input_name"):
        ods = os.path.join(ws.inp, case["input_name"])
    if case.get("config_name"):
        ini = os.path.join(ws.inp, case["config_name"])
    argv = ["-o", ws.out] + list(case.get("extra", [])) + list(case["opts"]) + [ini, ods]
    res = cli.run_forked(case.get("country", "us"), argv, ws.cwd, ws.out)
    log_text = ""
    logdir = os.path.join(ws.cwd, "log")
    if os.path.isdir(logdir):
        for f in sorted(os.listdir(logdir)):
            with open(os.path.join(logdir, f), encoding="utf-8", errors="replace") as fh:
                log_text += fh.read()
    if not keep:
        ws.remove()
    return res, log_text


def judge_cli(st: Stats, case: Dict[str, Any]) -> None:
    st.inc("evaluations")
    st.inc("cli_evaluations")
    st.inc("distinct_nontrivial")
    res, log_text = run_cli_case(case)
    payload = {"kind": "cli", "why": case["why"], "opts": case["opts"], "country": case.get("country", "us"), "ini": case["ini"], "sheets": case["sheets"],
               "input_name": case.get("input_name"), "config_name": case.get("config_name"), "extra": case.get("extra", [])}
    reports = [f for f in res.outputs if f.endswith(".ods")]
    message = (res.stderr + res.stdout + log_text).strip()
    cls = case["why"].split(":")[0]
    if res.exit == 0:
        st.violation(dict(payload, signature=f"C12 cli: exit status 0 / {cls}", what=f"{case['why']} :: exit status 0, files written: {res.outputs}"))
    elif reports:
        st.violation(dict(payload, signature=f"C12 cli: report written despite the error / {cls}", what=f"{case['why']} :: exit {res.exit} but reports were written: {reports}"))
    elif not message:
        st.violation(dict(payload, signature=f"C12 cli: no error message / {cls}", what=f"{case['why']} :: exit {res.exit} without any message"))
    else:
        st.inc("cli_rejected_ok")
        st.sample({"why": case["why"], "argv_options": case["opts"], "exit": res.exit, "reports": reports, "message_tail": message.splitlines()[-1][:160]}, cap=1)


def cli_worker(chunk: List[Dict[str, Any]]) -> Stats:
    st = Stats()
    for case in chunk:
        judge_cli(st, case)
    return st


def cli_init() -> None:
    from rp2verif.seams import cli

    cli.preload()


def cli_sanity() -> Optional[str]:
    """The unmodified base input must run to completion and write reports (otherwise every rejection is vacuous)."""
    from rp2verif.seams import cli

    cli.preload()
    case = {"id": "sanity", "ini": S.ini_text(LAYOUT), "sheets": faulty_sheets(None), "opts": []}
    res, _ = run_cli_case(case)
    if res.exit != 0 or not any(f.endswith(".ods") for f in res.outputs):
        return f"base input does not run: {res.brief()}"
    return None


# ------------------------------------------------------------------------------------------------------------------


def main(tier: str, budget_s: Optional[float] = None) -> int:
    t0 = time.time()
    deadline = t0 + (budget_s or (280 if tier == "quick" else 3300))
    total = Stats()
    phases: List[Dict[str, Any]] = []
    complete = True

    def run(name: str, fn: Any, tasks: List[Any], init: Any = None) -> None:
        nonlocal complete
        t1 = time.time()
        results, done = common.pmap(fn, tasks, deadline=deadline, init=init)
        before = total.get("evaluations")
        for r in results:
            if r is not None:
                total.merge(r, sample_cap=40)
        ok = done == len(tasks)
        complete = complete and ok
        phases.append({"phase": name, "tasks": len(tasks), "tasks_done": done, "evaluations": total.get("evaluations") - before, "complete": ok, "wall_s": round(time.time() - t1, 1)})

    def chunks(items: List[Any], n: int) -> List[List[Any]]:
        n = max(1, min(n, len(items)))
        return [items[i::n] for i in range(n)]

    problem = cli_sanity_in_child()
    if problem:
        print(f"{PROP}: harness error: {problem}")
        return 2
    cases = cli_cases(tier)
    run("(d,e) faults through the real command line", cli_worker, chunks(cases, common.NPROC * 4), init=cli_init)
    run("(b) field faults at every row x field (parse_ods)", b_worker, chunks(all_field_fault_cases(), common.NPROC * 2))
    run("(c) config faults (Configuration)", c_worker, chunks(config_faults(), 4))
    run("(a2) every single edit of well-formed sheets", a2_worker, [(b, 1) for b in base_sheets()])
    max_len = 5 if tier == "quick" else 7
    for length in range(1, max_len + 1):
        pre = min(length, 2 if length < 7 else 3)
        run(f"(a1) all row-kind sequences of length {length}", a1_worker, [("".join(p), length) for p in itertools.product(KINDS, repeat=pre)])
    pair_bases = base_sheets() if tier == "thorough" else ["IhiE", "IhiEOhoE", "OhoEbIhiiE", "IhfE"]
    run(f"(a2) every pair of edits of {len(pair_bases)} well-formed sheets", a2_worker, [(b, 2, i, 8) for b in pair_bases for i in range(8)])
    new, matched = common.report(PROP, total.violations)
    coverage = {
        "evaluations": total.get("evaluations"),
        "distinct_nontrivial": total.get("distinct_nontrivial"),
        "rule": (
            "fault enumeration: (a1) every sequence over the 11 row kinds up to the length bound and (a2) every single (thorough: pair of) edit "
            "(delete / replace / insert a row of each kind at each position) of well-formed base sheets, judged by a reference acceptor of the "
            "documented grammar; (b) every documented field fault class at every row x field of a 2-asset base input; (c) every config fault; "
            "(d,e) one instance of every fault class per table and asset, structure faults, every config and command-line fault through the real "
            "CLI (exit status, message, no report). non-trivial = faulty inputs that must be rejected plus well-formed sheets that must be "
            "accepted with exactly their rows (sequences the documentation does not classify are counted separately and not judged)"
        ),
        "by_kind": {k: total.get(k) for k in ("cli_evaluations", "cli_rejected_ok", "field_fault_evaluations", "config_fault_evaluations", "a1_evaluations",
                                               "a2.1_evaluations", "a2.2_evaluations", "structure_must_reject", "structure_must_accept", "structure_unspecified")},
        "rejections_by_exception": {k[len("rejected_with_"):]: v for k, v in sorted(total.counters.items()) if k.startswith("rejected_with_")},
        "row_kinds": KIND_NAMES,
        "phases": phases,
        "exhaustive": bool(complete),
        "violations_total": total.get("violations_total"),
        "known_finding_hits": matched,
        "samples": total.samples[:12],
    }
    common.write_evidence(PROP, tier, LEVEL, coverage, time.time() - t0, new, assumptions=[
        "the acceptor encodes docs/input_files.md; a repeated table whose first instance is empty, a table without header line and a wrong-shaped row in header position are not classified by the documentation and not judged",
        "on the parser seam any exception counts as rejection (the command line turns every exception into exit status 1); the CLI phase checks exit status, message and absence of reports end to end",
    ])
    print(f"{PROP} {tier}: evaluations={total.get('evaluations')} nontrivial={total.get('distinct_nontrivial')} violations={total.get('violations_total')} "
          f"(unlisted {new}) exhaustive={complete} wall={time.time() - t0:.1f}s")
    for p in phases:
        print("  ", p)
    return 1 if new else 0


def cli_sanity_in_child() -> Optional[str]:
    import multiprocessing as mp

    ctx = mp.get_context("fork")
    with ctx.Pool(1) as pool:
        return pool.apply(cli_sanity)


def replay(path: str) -> int:
    import json

    with open(path, encoding="utf-8") as f:
        p = json.load(f)
    st = Stats()
    kind = p.get("kind")
    if kind == "structure":
        judge_sequence(st, tuple(p["sequence"]), p.get("origin", "replay"))
    elif kind == "field":
        st.merge(b_worker([p]))
    elif kind == "config":
        st.merge(c_worker([(p["class"], p["ini"])]))
    else:
        import multiprocessing as mp

        ctx = mp.get_context("fork")
        with ctx.Pool(1, initializer=cli_init) as pool:
            st.merge(pool.apply(cli_worker, ([dict(p, id="replay")],)))
    if st.violations:
        print(f"VIOLATION property={PROP} replay={path}\n  {st.violations[0]['what']}")
        return 1
    print(f"replay: {path}: property {PROP} holds on this case")
    return 0
