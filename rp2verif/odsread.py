"""Reader for generated .ods reports: every sheet as a matrix of plain cells, formulas kept as text.

A cell is None, a str, a float, or Formula(text). HYPERLINK formulas (the only ones rp2_full_report writes) are
parsed into (target sheet, target row, value); other formulas (tax_report_jp) are kept verbatim.
"""
from __future__ import annotations

import re
from fractions import Fraction
from typing import Any, Dict, List, NamedTuple, Optional, Tuple


class Formula(NamedTuple):
    text: str


class Link(NamedTuple):
    sheet: str
    row: int  # 1-based row in the target sheet
    value: Any  # str or Fraction


_LINK = re.compile(r'^=HYPERLINK\("#(?P<sheet>[^"]*)\.a(?P<r1>\d+):z(?P<r2>\d+)";\s*(?P<val>.*)\)$', re.S)


_NS_TABLE = "urn:oasis:names:tc:opendocument:xmlns:table:1.0"
_NS_OFFICE = "urn:oasis:names:tc:opendocument:xmlns:office:1.0"
_NS_TEXT = "urn:oasis:names:tc:opendocument:xmlns:text:1.0"
_MAX_REPEAT = 64  # trailing filler rows / cells are written as one element repeated many times


def _cell_text(el: Any) -> str:
    parts = []
    for p in el.iter(f"{{{_NS_TEXT}}}p"):
        parts.append("".join(p.itertext()))
    return "\n".join(parts)


def read(path: str) -> Dict[str, List[List[Any]]]:
    """Independent of ezodf: content.xml is parsed directly (OpenDocument table:table / table-row / table-cell)."""
    import zipfile

    from lxml import etree

    with zipfile.ZipFile(path) as z:
        root = etree.fromstring(z.read("content.xml"))
    out: Dict[str, List[List[Any]]] = {}
    t_table, t_row, t_cell, t_cov = (f"{{{_NS_TABLE}}}{n}" for n in ("table", "table-row", "table-cell", "covered-table-cell"))
    a_name, a_rrep, a_crep, a_formula = (f"{{{_NS_TABLE}}}{n}" for n in ("name", "number-rows-repeated", "number-columns-repeated", "formula"))
    a_vtype, a_value, a_sval, a_dval, a_bval = (f"{{{_NS_OFFICE}}}{n}" for n in ("value-type", "value", "string-value", "date-value", "boolean-value"))
    for table in root.iter(t_table):
        rows: List[List[Any]] = []
        for row in table.iter(t_row):
            cells: List[Any] = []
            for c in row:
                if c.tag not in (t_cell, t_cov):
                    continue
                rep = int(c.get(a_crep, "1"))
                formula = c.get(a_formula)
                vtype = c.get(a_vtype)
                v: Any
                if formula:
                    f = formula
                    if f.startswith("of:"):
                        f = f[3:]
                    v = Formula(f)
                elif vtype in ("float", "percentage", "currency"):
                    v = float(c.get(a_value))
                elif vtype == "string":
                    sv = c.get(a_sval)
                    v = sv if sv is not None else _cell_text(c)
                elif vtype == "date":
                    v = c.get(a_dval)
                elif vtype == "boolean":
                    v = c.get(a_bval) == "true"
                elif vtype is None:
                    txt = _cell_text(c) if len(c) else ""
                    v = txt if txt else None
                else:
                    v = _cell_text(c)
                cells.extend([v] * min(rep, _MAX_REPEAT if v is None else rep))
            while cells and cells[-1] is None:
                cells.pop()
            rrep = int(row.get(a_rrep, "1"))
            for _ in range(min(rrep, _MAX_REPEAT if not cells else rrep)):
                rows.append(list(cells))
        out[table.get(a_name)] = rows
    return out


def read_ezodf(path: str) -> Dict[str, List[List[Any]]]:
    """The same through ezodf (used to cross-check the direct reader)."""
    import ezodf

    doc = ezodf.opendoc(path)
    out: Dict[str, List[List[Any]]] = {}
    for sheet in doc.sheets:
        rows: List[List[Any]] = []
        for r in range(sheet.nrows()):
            cells: List[Any] = []
            for c in sheet.row(r):
                f = c.formula
                if f:
                    cells.append(Formula(str(f)))
                else:
                    cells.append(c.value)
            while cells and cells[-1] is None:
                cells.pop()
            rows.append(cells)
        out[sheet.name] = rows
    return out


def sheet_names(path: str) -> List[str]:
    import ezodf

    return [s.name for s in ezodf.opendoc(path).sheets]


def parse_link(cell: Any) -> Optional[Link]:
    if not isinstance(cell, Formula):
        return None
    m = _LINK.match(cell.text)
    if not m or m.group("r1") != m.group("r2"):
        return None
    raw = m.group("val").strip()
    val: Any
    if raw.startswith('"') and raw.endswith('"'):
        val = raw[1:-1]
    else:
        try:
            val = Fraction(raw)
        except (ValueError, ZeroDivisionError):
            val = raw
    return Link(m.group("sheet"), int(m.group("r1")), val)


def plain(cell: Any) -> Any:
    """The value a reader sees: the link's value for HYPERLINK cells."""
    link = parse_link(cell)
    if link is not None:
        return link.value
    return cell


def cell(rows: List[List[Any]], r: int, c: int) -> Any:
    if r < 0 or r >= len(rows):
        return None
    row = rows[r]
    return row[c] if c < len(row) else None


def is_blank(v: Any) -> bool:
    return v is None or v == ""


def num(v: Any) -> Optional[Fraction]:
    v = plain(v)
    if isinstance(v, Fraction):
        return v
    if isinstance(v, bool):
        return None
    if isinstance(v, (int, float)):
        return Fraction(repr(float(v))) if v == v else None
    return None


def close(a: Any, b: Fraction, rel: Fraction = Fraction(1, 10**11), abs_tol: Fraction = Fraction(1, 10**15)) -> bool:
    """A report cell (double precision, or exact text inside a HYPERLINK) equals the computed value b."""
    x = num(a)
    if x is None:
        return False
    return abs(x - b) <= max(abs_tol, abs(b) * rel)


def find_rows(rows: List[List[Any]], text: str, col: int = 0) -> List[int]:
    return [i for i, r in enumerate(rows) if col < len(r) and plain(r[col]) == text]


def table_after(rows: List[List[Any]], title_row: int, key_col: int, header_rows: int = 2) -> Tuple[int, List[int]]:
    """Indices of the data rows of the table whose title is on title_row: the rows after the header lines up to the
    first row whose key column is blank."""
    start = title_row + 1 + header_rows
    out = []
    i = start
    while i < len(rows) and not is_blank(plain(cell(rows, i, key_col))):
        out.append(i)
        i += 1
    return start, out
