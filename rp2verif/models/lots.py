"""Reference model of lot matching over plain specs, in exact rational arithmetic. Deliberately boring.

View of a history: lots (every in-transaction) and disposals (every out-transaction for amount+fee, every transfer
for its fee when non-zero); earn-typed in-transactions are taxable events that consume nothing.
"""
from __future__ import annotations

from datetime import datetime
from fractions import Fraction
from typing import Any, Dict, List, Optional, Sequence, Tuple

EARN = {"AIRDROP", "HARDFORK", "INCOME", "INTEREST", "MINING", "STAKING", "WAGES"}


def F(x: Any) -> Fraction:
    return Fraction(str(x))


def parse_ts(s: str) -> datetime:
    return datetime.fromisoformat(s)


class Lot:
    __slots__ = ("row", "dt", "instant", "price", "amount", "typ")

    def __init__(self, spec: Dict[str, Any]):
        self.row = spec["row"]
        self.dt = parse_ts(spec["timestamp"])
        self.instant = self.dt.timestamp()
        self.price = F(spec["spot_price"])
        self.amount = F(spec["crypto_in"])
        self.typ = spec["transaction_type"].upper()


class Disposal:
    __slots__ = ("row", "dt", "instant", "amount", "table", "typ")

    def __init__(self, spec: Dict[str, Any]):
        self.row = spec["row"]
        self.dt = parse_ts(spec["timestamp"])
        self.instant = self.dt.timestamp()
        self.table = spec["table"]
        if spec["table"] == "out":
            self.amount = F(spec["crypto_out_no_fee"]) + F(spec.get("crypto_fee") or 0)
            self.typ = spec["transaction_type"].upper()
        else:
            self.amount = F(spec["crypto_sent"]) - F(spec["crypto_received"])
            self.typ = "MOVE"


def view(specs: Sequence[Dict[str, Any]]) -> Tuple[Dict[int, Lot], Dict[int, Disposal]]:
    lots: Dict[int, Lot] = {}
    disposals: Dict[int, Disposal] = {}
    for s in specs:
        if s["table"] == "in":
            lots[s["row"]] = Lot(s)
        else:
            d = Disposal(s)
            if d.amount > 0:
                disposals[s["row"]] = d
    return lots, disposals


def method_for_year(schedule: Sequence[Tuple[int, str]], year: int) -> Optional[str]:
    best: Optional[Tuple[int, str]] = None
    for y, m in schedule:
        if y <= year and (best is None or y > best[0]):
            best = (y, m)
    return best[1] if best else None


def primary_key(method: str, lot: Lot) -> Any:
    if method == "fifo":
        return lot.instant
    if method == "lifo":
        return -lot.instant
    if method == "hifo":
        return -lot.price
    if method == "lofo":
        return lot.price
    raise ValueError(method)


def overspent(specs: Sequence[Dict[str, Any]]) -> bool:
    """True iff at some instant the cumulative amount disposed of exceeds the cumulative amount acquired."""
    lots, disposals = view(specs)
    instants = sorted({d.instant for d in disposals.values()})
    for t in instants:
        acquired = sum((l.amount for l in lots.values() if l.instant <= t), Fraction(0))
        disposed = sum((d.amount for d in disposals.values() if d.instant <= t), Fraction(0))
        if disposed > acquired:
            return True
    return False


def monitor_order(
    specs: Sequence[Dict[str, Any]],
    fractions: Sequence[Tuple[int, Optional[int], Fraction]],
    schedule: Sequence[Tuple[int, str]],
) -> List[str]:
    """C01 monitor on the real output: no fraction may come from a lot while a strictly better-ranked lot, acquired at
    or before the disposal, still has unconsumed balance. Ties on the primary key are not ordered."""
    lots, disposals = view(specs)
    remaining = {r: l.amount for r, l in lots.items()}
    problems: List[str] = []
    for ev_row, lot_row, amount in fractions:
        if lot_row is None:
            continue
        d = disposals.get(ev_row)
        if d is None:
            problems.append(f"fraction for row {ev_row}, which is not a disposal")
            continue
        lot = lots.get(lot_row)
        if lot is None:
            problems.append(f"fraction of event row {ev_row} taken from unknown lot row {lot_row}")
            continue
        if lot.instant > d.instant:
            problems.append(f"event row {ev_row} paired with lot row {lot_row} acquired later")
        if remaining[lot_row] < amount:
            problems.append(f"lot row {lot_row} overdrawn by event row {ev_row}: remaining {remaining[lot_row]} < {amount}")
        m = method_for_year(schedule, d.dt.year)
        if m is None:
            problems.append(f"no method for year {d.dt.year}")
            continue
        k = primary_key(m, lot)
        for r2, l2 in lots.items():
            if r2 != lot_row and l2.instant <= d.instant and remaining[r2] > 0 and primary_key(m, l2) < k:
                problems.append(
                    f"{m}: event row {ev_row} took {amount} from lot row {lot_row} although better-ranked lot row {r2} "
                    f"still had {remaining[r2]} unconsumed"
                )
                break
        remaining[lot_row] -= amount
    return problems


def tie_free(specs: Sequence[Dict[str, Any]]) -> bool:
    lots, _ = view(specs)
    inst = [l.instant for l in lots.values()]
    prices = [l.price for l in lots.values()]
    return len(set(inst)) == len(inst) and len(set(prices)) == len(prices)


def reference_match(
    specs: Sequence[Dict[str, Any]],
    event_order: Sequence[int],
    schedule: Sequence[Tuple[int, str]],
) -> Optional[Dict[Tuple[int, int], Fraction]]:
    """Greedy reference matcher for tie-free histories. event_order = disposal rows in processing order.
    Returns {(event row, lot row): amount} or None when some disposal cannot be covered."""
    lots, disposals = view(specs)
    remaining = {r: l.amount for r, l in lots.items()}
    out: Dict[Tuple[int, int], Fraction] = {}
    for ev_row in event_order:
        d = disposals[ev_row]
        need = d.amount
        m = method_for_year(schedule, d.dt.year)
        assert m is not None
        while need > 0:
            cands = [l for r, l in lots.items() if l.instant <= d.instant and remaining[r] > 0]
            if not cands:
                return None
            best = min(cands, key=lambda l: primary_key(m, l))
            take = min(need, remaining[best.row])
            out[(ev_row, best.row)] = out.get((ev_row, best.row), Fraction(0)) + take
            remaining[best.row] -= take
            need -= take
    return out


def conservation(
    specs: Sequence[Dict[str, Any]],
    fractions: Sequence[Tuple[int, Optional[int], Fraction]],
) -> List[str]:
    """C02 sums on the real output: positive fractions; per disposal sum == amount + fee; per lot sum <= acquired;
    no lot later than its event; earn events appear once, lot-less, for the full amount."""
    lots, disposals = view(specs)
    problems: List[str] = []
    per_event: Dict[int, Fraction] = {}
    per_lot: Dict[int, Fraction] = {}
    for ev_row, lot_row, amount in fractions:
        if amount <= 0:
            problems.append(f"non-positive fraction {amount} for event row {ev_row}")
        if lot_row is None:
            continue
        per_event[ev_row] = per_event.get(ev_row, Fraction(0)) + amount
        per_lot[lot_row] = per_lot.get(lot_row, Fraction(0)) + amount
        if ev_row in disposals and lot_row in lots and lots[lot_row].instant > disposals[ev_row].instant:
            problems.append(f"event row {ev_row} uses lot row {lot_row} acquired after it")
    for r, d in disposals.items():
        got = per_event.get(r, Fraction(0))
        if got != d.amount:
            problems.append(f"disposal row {r}: fractions sum to {got}, amount leaving the holder is {d.amount}")
    for r in per_event:
        if r not in disposals:
            problems.append(f"fractions with a lot for row {r}, which is not a disposal")
    for r, used in per_lot.items():
        if r not in lots:
            problems.append(f"unknown lot row {r}")
        elif used > lots[r].amount:
            problems.append(f"lot row {r} overspent: {used} > {lots[r].amount}")
    return problems
