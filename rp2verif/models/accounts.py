"""Reference model of per-account balances over plain specs (exact rationals)."""
from __future__ import annotations

import itertools
from datetime import date
from fractions import Fraction
from typing import Any, Dict, List, Optional, Sequence, Tuple

from rp2verif.models.lots import F, parse_ts

Account = Tuple[str, str]


def flows(spec: Dict[str, Any]) -> List[Tuple[Account, str, Fraction]]:
    """[(account, kind, amount)] with kind in acquired / sent / received."""
    if spec["table"] == "in":
        out = [((spec["exchange"], spec["holder"]), "acquired", F(spec["crypto_in"]))]
        if F(spec.get("crypto_fee") or 0) > 0:
            # a fee paid in crypto leaves the same account (RP2 models it as an artificial fee-only disposal)
            out.append(((spec["exchange"], spec["holder"]), "sent", F(spec["crypto_fee"])))
        return out
    if spec["table"] == "out":
        return [((spec["exchange"], spec["holder"]), "sent", F(spec["crypto_out_no_fee"]) + F(spec.get("crypto_fee") or 0))]
    return [
        ((spec["from_exchange"], spec["from_holder"]), "sent", F(spec["crypto_sent"])),
        ((spec["to_exchange"], spec["to_holder"]), "received", F(spec["crypto_received"])),
    ]


def balances(specs: Sequence[Dict[str, Any]], to_date: Optional[date] = None) -> Dict[Account, Dict[str, Fraction]]:
    out: Dict[Account, Dict[str, Fraction]] = {}
    for s in specs:
        if to_date is not None and parse_ts(s["timestamp"]).date() > to_date:
            continue
        for acct, kind, amount in flows(s):
            b = out.setdefault(acct, {"acquired": Fraction(0), "sent": Fraction(0), "received": Fraction(0)})
            b[kind] += amount
    for b in out.values():
        b["final"] = b["acquired"] + b["received"] - b["sent"]
    return out


def overdraft_verdict(specs: Sequence[Dict[str, Any]], tol: Fraction = Fraction(1, 10**10)) -> Tuple[str, Optional[Account], Fraction]:
    """'must_reject' | 'must_accept' | 'either', the account concerned and the deepest dip that decides it.

    Transactions are replayed in instant order. Inside a group of equal instants the property fixes one thing only: what is
    acquired at an instant is available to what leaves at that instant (it names rejecting a same-instant buy+sell as too strict);
    the order among the transfers and disposals of one instant is left open. So: must_reject iff under EVERY order of some group a
    balance drops below -tol; must_accept iff all balances stay >= 0 under every order that applies the group's IN-table rows
    first; anything else may go either way."""
    groups: Dict[float, List[Dict[str, Any]]] = {}
    for s in specs:
        groups.setdefault(parse_ts(s["timestamp"]).timestamp(), []).append(s)
    bal: Dict[Account, Fraction] = {}
    always_below_tol = False  # some group: every permutation dips below -tol
    ever_negative = False  # some group, some permutation: dips below 0
    worst_acct: Optional[Account] = None
    worst = Fraction(0)
    for t in sorted(groups):
        g = groups[t]
        perms = list(itertools.permutations(g)) if len(g) <= 4 else [tuple(g)]
        ins = tuple(x for x in g if x["table"] == "in")
        rest = [x for x in g if x["table"] != "in"]
        ins_first = {tuple(id(x) for x in ins + p) for p in (itertools.permutations(rest) if len(rest) <= 4 else [tuple(rest)])}
        if len(g) > 4:
            perms = [ins + tuple(rest)]
        group_all_below = True
        end_state: Optional[Dict[Account, Fraction]] = None
        for perm in perms:
            b = dict(bal)
            min_dip = Fraction(0)
            dip_acct: Optional[Account] = None
            for s in perm:
                # one transaction is one moment: its debit and credit are applied together (a transfer from an
                # account to itself nets to minus its fee; the property fixes no order inside a transaction)
                net: Dict[Account, Fraction] = {}
                for acct, kind, amount in flows(s):
                    net[acct] = net.get(acct, Fraction(0)) + (-amount if kind == "sent" else amount)
                for acct, delta in net.items():
                    b[acct] = b.get(acct, Fraction(0)) + delta
                    if delta < 0 and b[acct] < min_dip:
                        min_dip, dip_acct = b[acct], acct
            if min_dip < 0 and tuple(id(x) for x in perm) in ins_first:
                ever_negative = True
            if min_dip < worst:
                worst, worst_acct = min_dip, dip_acct
            if not min_dip < -tol:
                group_all_below = False
            end_state = b
        if group_all_below:
            always_below_tol = True
        assert end_state is not None
        bal = end_state
    if always_below_tol:
        return "must_reject", worst_acct, worst
    if not ever_negative:
        return "must_accept", None, Fraction(0)
    return "either", worst_acct, worst
