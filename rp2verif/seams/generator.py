"""Generator seam: compute seam for every asset of a case, then the real report plugins, in a FORKED CHILD (report modules
bind their translation function at import and rp2_full_report keeps class-level dictionaries, so a long-lived process
would carry state from one execution into the next). The child reads the written .ods files back and returns plain
data over a pipe: the sheets, and a rendering of the ComputedData objects the generators were given.

The worker that forks must not have imported any rp2.plugin.report module.
"""
from __future__ import annotations

import os
import pickle
import shutil
import sys
import tempfile
import traceback
from datetime import date
from typing import Any, Callable, Dict, List, Optional, Sequence, Tuple

from rp2verif import common

REPORT_MODULES = {
    "rp2_full_report": "rp2.plugin.report.rp2_full_report",
    "open_positions": "rp2.plugin.report.open_positions",
    "tax_report_us": "rp2.plugin.report.us.tax_report_us",
    "tax_report_ie": "rp2.plugin.report.ie.tax_report_ie",
    "tax_report_jp": "rp2.plugin.report.jp.tax_report_jp",
}

STRINGS = ("In-Flow Detail", "Out-Flow Detail", "Intra-Flow Detail", "Gain / Loss Summary", "Account Balances", "Average Price", "Gain / Loss Detail",
           "Yearly Gain / Loss Summary", "YES", "NO", "LONG", "SHORT", "Total", "Legend", "Summary", "Accounting Method", "From Date Filter", "{}_{}", "{}_Summary", "Transfer",
           "To Date Filter", "{} In-Out", "{} Tax", "Asset", "Asset - Exchange", "Holder", "Exchange")


def fork_call(fn: Callable[..., Any], *args: Any, timeout: float = 300) -> Any:
    """Run fn(*args) in a forked child and return its (pickled) result; exceptions come back as ('__error__', text)."""
    r, w = os.pipe()
    pid = os.fork()
    if pid == 0:
        code = 0
        try:
            os.close(r)
            try:
                res = fn(*args)
            except BaseException:  # pylint: disable=broad-except
                res = ("__error__", traceback.format_exc())
            with os.fdopen(w, "wb") as f:
                pickle.dump(res, f, protocol=pickle.HIGHEST_PROTOCOL)
        except BaseException:  # pylint: disable=broad-except
            code = 1
        finally:
            os._exit(code)
    os.close(w)
    with os.fdopen(r, "rb") as f:
        data = f.read()
    os.waitpid(pid, 0)
    if not data:
        return ("__error__", "child produced no result")
    return pickle.loads(data)


def preimport() -> None:
    """Import rp2's core (not the report plugins) in the worker so that children start warm."""
    from rp2verif.seams import compute  # noqa: F401

    bad = [m for m in list(REPORT_MODULES.values()) + ["rp2.plugin.report.abstract_ods_generator"] if m in sys.modules]
    if bad:
        raise RuntimeError(f"report plugin modules already imported in the forking process: {bad}")


def xdump(C: Any, computed: Any) -> Dict[str, Any]:
    """Everything the reports print, from the ComputedData given to the generators (exact rationals, plain types)."""
    F = C.F
    d = C.dump(computed)
    d["asset"] = computed.asset
    d["in_rows"] = [{
        "row": t.row, "timestamp": t.timestamp, "asset": t.asset, "exchange": t.exchange, "holder": t.holder, "type": t.transaction_type.value.upper(),
        "spot": F(t.spot_price), "crypto_in": F(t.crypto_in), "running": F(computed.get_crypto_in_running_sum(t)), "fiat_fee": F(t.fiat_fee),
        "fiat_in_no_fee": F(t.fiat_in_no_fee), "fiat_in_with_fee": F(t.fiat_in_with_fee), "taxable": bool(t.is_taxable()), "unique_id": t.unique_id, "notes": t.notes,
        "sold_pct": F(computed.get_in_lot_sold_percentage(t)),
    } for t in computed.in_transaction_set]
    d["out_rows"] = [{
        "row": t.row, "timestamp": t.timestamp, "asset": t.asset, "exchange": t.exchange, "holder": t.holder, "type": t.transaction_type.value.upper(),
        "spot": F(t.spot_price), "crypto_out_no_fee": F(t.crypto_out_no_fee), "crypto_fee": F(t.crypto_fee), "running": F(computed.get_crypto_out_running_sum(t)),
        "fee_running": F(computed.get_crypto_out_fee_running_sum(t)), "fiat_out_no_fee": F(t.fiat_out_no_fee), "fiat_fee": F(t.fiat_fee),
        "taxable": bool(t.is_taxable()), "unique_id": t.unique_id, "notes": t.notes,
    } for t in computed.out_transaction_set]
    d["intra_rows"] = [{
        "row": t.row, "timestamp": t.timestamp, "asset": t.asset, "from_exchange": t.from_exchange, "from_holder": t.from_holder, "to_exchange": t.to_exchange,
        "to_holder": t.to_holder, "spot": F(t.spot_price), "crypto_sent": F(t.crypto_sent), "crypto_received": F(t.crypto_received), "crypto_fee": F(t.crypto_fee),
        "fee_running": F(computed.get_crypto_intra_fee_running_sum(t)), "fiat_fee": F(t.fiat_fee), "taxable": bool(t.is_taxable()), "unique_id": t.unique_id,
        "notes": t.notes,
    } for t in computed.intra_transaction_set]
    gls = computed.gain_loss_set
    rows = []
    for r, gl in zip(d["detail"], gls):
        ev, lot = gl.taxable_event, gl.acquired_lot
        table = {"InTransaction": "IN", "OutTransaction": "OUT", "IntraTransaction": "INTRA"}[type(ev).__name__]
        r = dict(r)
        r.update({
            "event_table": table, "event_uid": ev.unique_id, "event_spot": F(ev.spot_price), "event_pct": F(gl.taxable_event_fraction_percentage),
            "event_balance_change": F(ev.crypto_balance_change), "event_year": ev.timestamp.year,
            "lot_ts": lot.timestamp if lot else None, "lot_uid": lot.unique_id if lot else None, "lot_spot": F(lot.spot_price) if lot else None,
            "lot_pct": F(gl.acquired_lot_fraction_percentage) if lot else None,
            "lot_fiat_with_fee_fraction": F(gl.acquired_lot_fiat_amount_with_fee_fraction) if lot else None,
            "lot_fee_fraction": F(lot.fiat_fee) * F(gl.acquired_lot_fraction_percentage) if lot else None,
            "lot_balance_change": F(lot.crypto_balance_change) if lot else None,
            "lot_exchange": lot.exchange if lot else None, "lot_holder": lot.holder if lot else None,
            "event_exchange": getattr(ev, "exchange", getattr(ev, "from_exchange", None)), "event_holder": getattr(ev, "holder", getattr(ev, "from_holder", None)),
        })
        rows.append(r)
    d["detail"] = rows
    d["yearly_order"] = [(y.year, y.asset, y.transaction_type.value.upper(), bool(y.is_long_term_capital_gains), F(y.crypto_amount), F(y.fiat_amount),
                          F(y.fiat_cost_basis), F(y.fiat_gain_loss)) for y in computed.yearly_gain_loss_list]
    return d


def _child(case: Dict[str, Any]) -> Dict[str, Any]:
    from importlib import import_module

    from rp2.localization import set_generation_language

    lang = case.get("lang", "en")
    set_generation_language(lang)
    from rp2.configuration import MAX_DATE, MIN_DATE

    from rp2verif import odsread
    from rp2verif.seams import compute as C

    fd: Optional[date] = case.get("from")
    td: Optional[date] = case.get("to")
    cc = case.get("country", "us")
    schedule = [tuple(x) for x in case["schedule"]]
    engine = C.engine(schedule)  # ONE engine (and one set of method objects) for all assets, as rp2_main does
    computed: Dict[str, Any] = {}
    out: Dict[str, Any] = {"error": None, "stage": None, "files": {}, "dumps": {}, "names": {}}
    try:
        if case.get("sheets"):
            # the whole front end: a spreadsheet per asset -> parse_ods (crypto-fee purchases are split there) -> compute_tax
            from rp2.configuration import Configuration
            from rp2.ods_parser import parse_ods

            from rp2verif import sheets as S
            from rp2verif.seams import parser as P

            ini = P.write_ini(S.ini_text(S.canonical_layout(), **case.get("ini_kw", {})))
            cfg = Configuration(ini, C.country(cc), fd or MIN_DATE, td or MAX_DATE, case.get("allow_negative", True))
            doc = P.build_doc(case["sheets"])
            for asset in sorted(case["sheets"]):
                computed[asset] = C.compute_tax(cfg, engine, parse_ods(cfg, asset, doc))
        else:
            cfg = C.configuration(cc, fd or MIN_DATE, td or MAX_DATE, case.get("allow_negative", True))
            for asset in sorted(case["assets"]):
                data = C.build_input(cfg, case["assets"][asset], asset)
                computed[asset] = C.compute_tax(cfg, engine, data)
    except Exception as exc:  # pylint: disable=broad-except
        out.update(error=f"{type(exc).__name__}: {exc}", stage="compute")
        return out
    for asset, cd in computed.items():
        try:
            out["dumps"][asset] = xdump(C, cd)
        except Exception as exc:  # pylint: disable=broad-except
            # RP2's own accessors raised while the computed figures were read back: a result, not a harness failure
            tb = traceback.extract_tb(exc.__traceback__)
            where = next((f"{os.path.basename(fr.filename)}:{fr.name}" for fr in reversed(tb) if "/rp2/" in fr.filename), "?")
            out.update(error=f"{type(exc).__name__} while reading the computed figures of {asset}: {str(exc)[:200]}", stage="read", where=where)
            return out
    out_dir = tempfile.mkdtemp(prefix="gen-", dir=common.scratch())
    try:
        import gettext as _gt  # noqa: F401
        import builtins

        tr = getattr(builtins, "_", lambda s: s)
        out["names"] = {s: tr(s) for s in STRINGS}
        for rep in case["reports"]:
            mod = import_module(REPORT_MODULES[rep])
            gen = mod.Generator()
            try:
                gen.generate(
                    country=C.country(cc),
                    years_2_accounting_method_names={int(y): m for y, m in schedule},
                    asset_to_computed_data=computed,
                    output_dir_path=out_dir,
                    output_file_prefix="",
                    from_date=fd or MIN_DATE,
                    to_date=td or MAX_DATE,
                    generation_language=lang,
                )
            except Exception as exc:  # pylint: disable=broad-except
                tb = traceback.extract_tb(exc.__traceback__)
                where = next((f"{os.path.basename(fr.filename)}:{fr.name}" for fr in reversed(tb) if "/rp2/" in fr.filename), "?")
                out.update(error=f"{type(exc).__name__}: {exc}", stage=f"generate:{rep}", where=where)
                return out
        for name in sorted(os.listdir(out_dir)):
            if name.endswith(".ods"):
                out["files"][name] = odsread.read(os.path.join(out_dir, name))
            else:
                out["files"][name] = None
    finally:
        shutil.rmtree(out_dir, ignore_errors=True)
    return out


def run(case: Dict[str, Any]) -> Dict[str, Any]:
    """One execution: fork, compute every asset, generate the requested reports, read them back."""
    res = fork_call(_child, case)
    if isinstance(res, tuple) and res and res[0] == "__error__":
        return {"error": f"harness: {res[1]}", "stage": "harness", "files": {}, "dumps": {}, "names": {}}
    return res
