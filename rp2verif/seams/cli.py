"""CLI seam: the real console entry points (rp2.plugin.country.<cc>:rp2_entry) with a real argv, real .ods / .ini files,
a private cwd and output directory.

Two launchers:
* run_fresh  - a fresh interpreter (/venv/bin/python -B -c ...), PYTHONHASHSEED chosen by the caller;
* run_forked - fork from a worker that has imported third-party libraries only (never an rp2 module): the child has
  exactly the post-import state of a user's process (rp2.logger opens ./log in the child's cwd, report modules bind
  their translation function at import in the child). 3-5x cheaper; the hash seed is the worker's.
Both can run under an audit hook installed before the first rp2 import (C18).

This module must not import rp2.
"""
from __future__ import annotations

import json
import os
import subprocess
import sys
import time
from typing import Any, Dict, List, Optional, Sequence, Tuple

from rp2verif import common

ENTRY = {
    "us": "rp2.plugin.country.us",
    "jp": "rp2.plugin.country.jp",
    "es": "rp2.plugin.country.es",
    "ie": "rp2.plugin.country.ie",
    "generic": "rp2.plugin.country.generic",
}
PYTHON = "/venv/bin/python"

_PRELOAD = ("ezodf", "lxml.etree", "jsonschema", "babel", "babel.numbers", "babel.dates", "dateutil.parser", "prezzemolo.avl_tree",
            "prezzemolo.utility", "pycountry", "configparser", "argparse", "decimal", "gettext", "logging", "cProfile", "importlib.metadata")

AUDIT_DENY_PREFIXES = ("socket.", "subprocess.", "os.system", "os.exec", "os.posix_spawn", "os.spawn", "os.fork", "os.forkpty", "urllib.", "http.client.",
                       "ftplib.", "smtplib.", "poplib.", "imaplib.", "nntplib.", "telnetlib.", "webbrowser.", "ctypes.dlopen", "pty.spawn")
AUDIT_FS = ("open", "os.rename", "os.remove", "os.unlink", "os.mkdir", "os.rmdir", "os.truncate", "os.chmod", "os.chown", "os.link", "os.symlink",
            "shutil.copyfile", "shutil.move", "shutil.rmtree", "os.utime", "tempfile.mkstemp", "tempfile.mkdtemp")


def preload() -> None:
    """Import the third-party libraries rp2 uses (never rp2 itself) so that forked children start warm."""
    if any(m == "rp2" or m.startswith("rp2.") for m in sys.modules):
        raise RuntimeError("cli.preload(): an rp2 module is already imported in this process; forked CLI runs would not be fresh")
    for m in _PRELOAD:
        try:
            __import__(m)
        except Exception:  # pylint: disable=broad-except
            pass


class Result:
    __slots__ = ("exit", "stdout", "stderr", "outputs", "audit", "wall")

    def __init__(self, exit_code: int, stdout: str, stderr: str, outputs: List[str], audit: Optional[List[Any]], wall: float):
        self.exit = exit_code
        self.stdout = stdout
        self.stderr = stderr
        self.outputs = outputs
        self.audit = audit
        self.wall = wall

    def brief(self) -> str:
        tail = (self.stderr or self.stdout).strip().splitlines()
        msg = next((l for l in reversed(tail) if "Error" in l or "error" in l or "ERROR" in l), tail[-1] if tail else "")
        return f"exit={self.exit} outputs={self.outputs} :: {msg[:240]}"


def list_outputs(out_dir: str) -> List[str]:
    out: List[str] = []
    if os.path.isdir(out_dir):
        for root, _dirs, files in os.walk(out_dir):
            for f in files:
                out.append(os.path.relpath(os.path.join(root, f), out_dir))
    return sorted(out)


def _env(extra: Optional[Dict[str, str]], hashseed: str) -> Dict[str, str]:
    env = {k: v for k, v in os.environ.items() if k not in ("CURRENCY_CODE", "LONG_TERM_CAPITAL_GAINS", "RP2_ENABLE_PROFILER")}
    env.update({"PYTHONHASHSEED": hashseed, "TZ": "UTC", "LC_ALL": "C", "LANG": "C", "PYTHONDONTWRITEBYTECODE": "1"})
    rp2_src = os.path.join(common.REPO, "src")
    if os.environ.get("RP2_REPO"):
        env["PYTHONPATH"] = rp2_src + (os.pathsep + env["PYTHONPATH"] if env.get("PYTHONPATH") else "")
    if extra:
        env.update(extra)
    return env


_CHILD_CODE = r"""
import json, os, sys
audit_path = os.environ.get("RP2VERIF_AUDIT")
if audit_path:
    _events = []
    _deny = tuple(json.loads(os.environ["RP2VERIF_AUDIT_DENY"]))
    _fs = set(json.loads(os.environ["RP2VERIF_AUDIT_FS"]))
    def _hook(event, args):
        if event.startswith(_deny):
            _events.append([event, [repr(a)[:200] for a in args]])
        elif event in _fs:
            if event == "open":
                path, mode, flags = (list(args) + [None, None, None])[:3]
                writing = (isinstance(mode, str) and any(c in mode for c in "wax+")) or (isinstance(flags, int) and flags & (os.O_WRONLY | os.O_RDWR | os.O_CREAT | os.O_TRUNC | os.O_APPEND))
                if writing:
                    _events.append([event, [str(path), str(mode)]])
            else:
                _events.append([event, [str(a)[:300] for a in args]])
    sys.addaudithook(_hook)
    import atexit
    def _flush():
        try:
            with os.fdopen(os.open(audit_path, os.O_WRONLY | os.O_CREAT | os.O_TRUNC), "w") as f:
                json.dump(_events, f)
        except Exception:
            pass
    atexit.register(_flush)
sys.argv = json.loads(os.environ["RP2VERIF_ARGV"])
import importlib
importlib.import_module(os.environ["RP2VERIF_ENTRY"]).rp2_entry()
"""


def run_fresh(country: str, argv: Sequence[str], cwd: str, out_dir: str, env_extra: Optional[Dict[str, str]] = None, hashseed: str = "0",
              audit: bool = False, timeout: float = 300) -> Result:
    env = _env(env_extra, hashseed)
    env["RP2VERIF_ARGV"] = json.dumps([f"rp2_{country}"] + list(argv))
    env["RP2VERIF_ENTRY"] = ENTRY[country]
    audit_path = None
    if audit:
        audit_path = os.path.join(cwd, f".audit-{os.getpid()}-{time.time_ns()}.json")
        env["RP2VERIF_AUDIT"] = audit_path
        env["RP2VERIF_AUDIT_DENY"] = json.dumps(AUDIT_DENY_PREFIXES)
        env["RP2VERIF_AUDIT_FS"] = json.dumps(AUDIT_FS)
    t0 = time.time()
    try:
        p = subprocess.run([PYTHON, "-B", "-c", _CHILD_CODE], cwd=cwd, env=env, capture_output=True, text=True, timeout=timeout, check=False)
        code, so, se = p.returncode, p.stdout, p.stderr
    except subprocess.TimeoutExpired as exc:
        code, so, se = 124, str(exc.stdout or ""), "TIMEOUT"
    events = None
    if audit_path:
        events = []
        if os.path.exists(audit_path):
            with open(audit_path, encoding="utf-8") as f:
                events = json.load(f)
            os.unlink(audit_path)
    return Result(code, so, se, list_outputs(out_dir), events, time.time() - t0)


def run_forked(country: str, argv: Sequence[str], cwd: str, out_dir: str, env_extra: Optional[Dict[str, str]] = None, audit: bool = False,
               timeout: float = 300) -> Result:
    """Fork from this (rp2-free) process; the child becomes the CLI run."""
    if any(m == "rp2" or m.startswith("rp2.") for m in sys.modules):
        raise RuntimeError("run_forked from a process that has imported rp2")
    tag = f"{os.getpid()}-{time.time_ns()}"
    so_path = os.path.join(cwd, f".stdout-{tag}")
    se_path = os.path.join(cwd, f".stderr-{tag}")
    audit_path = os.path.join(cwd, f".audit-{tag}.json") if audit else None
    t0 = time.time()
    pid = os.fork()
    if pid == 0:
        code = 70
        try:
            os.chdir(cwd)
            for k in ("CURRENCY_CODE", "LONG_TERM_CAPITAL_GAINS", "RP2_ENABLE_PROFILER"):
                os.environ.pop(k, None)
            os.environ.update({"TZ": "UTC", "LC_ALL": "C", "LANG": "C"})
            if env_extra:
                os.environ.update(env_extra)
            rp2_src = os.path.join(common.REPO, "src")
            if os.environ.get("RP2_REPO") and rp2_src not in sys.path:
                sys.path.insert(0, rp2_src)
            fd_o = os.open(so_path, os.O_WRONLY | os.O_CREAT | os.O_TRUNC)
            fd_e = os.open(se_path, os.O_WRONLY | os.O_CREAT | os.O_TRUNC)
            sys.stdout.flush()
            sys.stderr.flush()
            os.dup2(fd_o, 1)
            os.dup2(fd_e, 2)
            devnull = os.open(os.devnull, os.O_RDONLY)
            os.dup2(devnull, 0)
            events: List[Any] = []
            if audit_path:
                deny = AUDIT_DENY_PREFIXES
                fs = set(AUDIT_FS)

                def _hook(event: str, args: Tuple[Any, ...]) -> None:
                    if event.startswith(deny):
                        events.append([event, [repr(a)[:200] for a in args]])
                    elif event in fs:
                        if event == "open":
                            path, mode, flags = (list(args) + [None, None, None])[:3]
                            writing = (isinstance(mode, str) and any(c in mode for c in "wax+")) or (
                                isinstance(flags, int) and bool(flags & (os.O_WRONLY | os.O_RDWR | os.O_CREAT | os.O_TRUNC | os.O_APPEND)))
                            if writing:
                                events.append([event, [str(path), str(mode)]])
                        else:
                            events.append([event, [str(a)[:300] for a in args]])

                sys.addaudithook(_hook)
            sys.argv = [f"rp2_{country}"] + list(argv)
            try:
                import importlib

                importlib.import_module(ENTRY[country]).rp2_entry()
                code = 0
            except SystemExit as exc:
                c = exc.code
                code = 0 if c is None else (c if isinstance(c, int) else 1)
            except BaseException:  # pylint: disable=broad-except
                import traceback

                traceback.print_exc()
                code = 1
            try:
                import logging

                logging.shutdown()
            except Exception:  # pylint: disable=broad-except
                pass
            sys.stdout.flush()
            sys.stderr.flush()
            if audit_path:
                snapshot = list(events)
                with os.fdopen(os.open(audit_path + ".tmp", os.O_WRONLY | os.O_CREAT | os.O_TRUNC), "w") as f:
                    json.dump(snapshot, f)
                os.rename(audit_path + ".tmp", audit_path)
        finally:
            os._exit(code & 0xFF)
    # parent
    deadline = t0 + timeout
    status = None
    while True:
        wpid, st = os.waitpid(pid, os.WNOHANG)
        if wpid == pid:
            status = st
            break
        if time.time() > deadline:
            try:
                os.kill(pid, 9)
            except OSError:
                pass
            os.waitpid(pid, 0)
            break
        time.sleep(0.002)
    if status is None:
        code = 124
    elif os.WIFEXITED(status):
        code = os.WEXITSTATUS(status)
    else:
        code = 128 + os.WTERMSIG(status)

    def _slurp(p: str) -> str:
        try:
            with open(p, encoding="utf-8", errors="replace") as f:
                s = f.read()
            os.unlink(p)
            return s
        except OSError:
            return ""

    so, se = _slurp(so_path), _slurp(se_path)
    events_out = None
    if audit_path:
        events_out = []
        if os.path.exists(audit_path):
            with open(audit_path, encoding="utf-8") as f:
                events_out = json.load(f)
            os.unlink(audit_path)
    return Result(code, so, se, list_outputs(out_dir), events_out, time.time() - t0)


class Workspace:
    """A private directory tree for one CLI case: <root>/cwd (where ./log appears), <root>/out, <root>/in."""

    def __init__(self, name: str) -> None:
        self.root = os.path.join(common.scratch(), f"ws-{os.getpid()}-{name}")
        self.cwd = os.path.join(self.root, "cwd")
        self.out = os.path.join(self.root, "out")
        self.inp = os.path.join(self.root, "in")
        for d in (self.cwd, self.inp):
            os.makedirs(d, exist_ok=True)

    def write(self, name: str, text: str) -> str:
        path = os.path.join(self.inp, name)
        with open(path, "w", encoding="utf-8") as f:
            f.write(text)
        return path

    def clean_out(self) -> None:
        import shutil

        shutil.rmtree(self.out, ignore_errors=True)

    def remove(self) -> None:
        import shutil

        shutil.rmtree(self.root, ignore_errors=True)


def write_ods(path: str, sheets: Dict[str, List[List[Any]]]) -> str:
    """Write a real .ods file from cell matrices (ezodf is third-party: allowed before the fork)."""
    import ezodf

    doc = ezodf.newdoc(doctype="ods", filename=path)
    for name, rows in sheets.items():
        width = max([len(r) for r in rows] + [1])
        sh = ezodf.Sheet(name, size=(max(len(rows), 1), width))
        for i, r in enumerate(rows):
            for j, v in enumerate(r):
                if v is not None:
                    sh[i, j].set_value(v)
        doc.sheets += sh
    doc.save()
    return path
