"""Compute seam: plain transaction specs -> real rp2 objects -> rp2.tax_engine.compute_tax.

A transaction spec is a dict with a 'table' key ('in' | 'out' | 'intra') and the constructor arguments as plain
strings / None (decimal strings are converted to RP2Decimal here). Specs are JSON-serialisable, so a failing
history is written verbatim to the replay file.
"""
from __future__ import annotations

import os
from datetime import date
from fractions import Fraction
from typing import Any, Dict, List, Optional, Sequence, Tuple

from rp2verif import common

common.enter_scratch()

from prezzemolo.avl_tree import AVLTree  # noqa: E402
from rp2.accounting_engine import AccountingEngine  # noqa: E402
from rp2.computed_data import ComputedData  # noqa: E402
from rp2.configuration import MAX_DATE, MIN_DATE, Configuration  # noqa: E402
from rp2.in_transaction import InTransaction  # noqa: E402
from rp2.input_data import InputData  # noqa: E402
from rp2.intra_transaction import IntraTransaction  # noqa: E402
from rp2.out_transaction import OutTransaction  # noqa: E402
from rp2.rp2_decimal import RP2Decimal  # noqa: E402
from rp2.rp2_error import RP2Error  # noqa: E402
from rp2.tax_engine import compute_tax  # noqa: E402
from rp2.transaction_set import TransactionSet  # noqa: E402
from importlib import import_module  # noqa: E402

common.quiet_rp2_logger()

ASSETS = ["B1", "B2", "B3"]
EXCHANGES = ["X1", "X2", "X3", "X4"]
HOLDERS = ["H1", "H2"]

INI_TEXT = """[general]
assets = {assets}
exchanges = {exchanges}
holders = {holders}

[in_header]
timestamp = 0
asset = 6
exchange = 1
holder = 2
transaction_type = 5
spot_price = 8
crypto_in = 7
crypto_fee = 9
fiat_in_no_fee = 10
fiat_in_with_fee = 11
fiat_fee = 12
unique_id = 3
notes = 13

[out_header]
timestamp = 0
asset = 6
exchange = 1
holder = 2
transaction_type = 5
spot_price = 8
crypto_out_no_fee = 7
crypto_fee = 9
crypto_out_with_fee = 10
fiat_out_no_fee = 11
fiat_fee = 12
unique_id = 3
notes = 13

[intra_header]
timestamp = 0
asset = 6
from_exchange = 1
from_holder = 2
to_exchange = 3
to_holder = 4
spot_price = 8
crypto_sent = 7
crypto_received = 10
unique_id = 5
notes = 12
"""

_INI_PATH: Optional[str] = None
_COUNTRIES: Dict[Tuple[str, Optional[str]], Any] = {}
_CONFIGS: Dict[Tuple[Any, ...], Configuration] = {}
_METHODS: Dict[str, Any] = {}


def ini_path() -> str:
    global _INI_PATH
    if _INI_PATH is None or not os.path.exists(_INI_PATH):
        _INI_PATH = os.path.join(common.scratch(), f"verif_{os.getpid()}.ini")
        with open(_INI_PATH, "w", encoding="utf-8") as f:
            f.write(INI_TEXT.format(assets=", ".join(ASSETS), exchanges=", ".join(EXCHANGES), holders=", ".join(HOLDERS)))
    return _INI_PATH


def country(code: str = "us", long_term_days: Optional[int] = None) -> Any:
    key = (code, str(long_term_days) if long_term_days is not None else None)
    if key not in _COUNTRIES:
        if code == "generic":
            os.environ["CURRENCY_CODE"] = "usd"
            os.environ["LONG_TERM_CAPITAL_GAINS"] = str(365 if long_term_days is None else long_term_days)
        mod = import_module(f"rp2.plugin.country.{code}")
        cls = {"us": "US", "es": "ES", "jp": "JP", "ie": "IE", "generic": "Generic"}[code]
        _COUNTRIES[key] = getattr(mod, cls)()
    return _COUNTRIES[key]


def configuration(
    country_code: str = "us",
    from_date: date = MIN_DATE,
    to_date: date = MAX_DATE,
    allow_negative_balances: bool = False,
    long_term_days: Optional[int] = None,
) -> Configuration:
    key = (country_code, from_date, to_date, allow_negative_balances, long_term_days, os.getpid())
    cfg = _CONFIGS.get(key)
    if cfg is None:
        cfg = Configuration(ini_path(), country(country_code, long_term_days), from_date, to_date, allow_negative_balances)
        _CONFIGS[key] = cfg
    return cfg


def method(name: str) -> Any:
    if name not in _METHODS:
        _METHODS[name] = import_module(f"rp2.plugin.accounting_method.{name}").AccountingMethod
    return _METHODS[name]()


def engine(schedule: Sequence[Tuple[int, str]]) -> AccountingEngine:
    """schedule: sequence of (first year, method name); the first entry normally starts at 1970 as rp2_main does for -m."""
    tree: AVLTree = AVLTree()
    for year, name in schedule:
        tree.insert_node(year, method(name))
    return AccountingEngine(years_2_methods=tree)


def _dec(v: Any) -> Optional[RP2Decimal]:
    if v is None:
        return None
    return RP2Decimal(str(v))


_IN_DEC = ("spot_price", "crypto_in", "crypto_fee", "fiat_in_no_fee", "fiat_in_with_fee", "fiat_fee")
_OUT_DEC = ("spot_price", "crypto_out_no_fee", "crypto_fee", "crypto_out_with_fee", "fiat_out_no_fee", "fiat_fee")
_INTRA_DEC = ("spot_price", "crypto_sent", "crypto_received")


def build_transaction(cfg: Configuration, spec: Dict[str, Any], asset: str) -> Any:
    kw = {k: v for k, v in spec.items() if k not in ("table", "sym")}
    kw.setdefault("asset", asset)
    table = spec["table"]
    if table == "in":
        for k in _IN_DEC:
            if k in kw:
                kw[k] = _dec(kw[k])
        return InTransaction(cfg, **kw)
    if table == "out":
        for k in _OUT_DEC:
            if k in kw:
                kw[k] = _dec(kw[k])
        kw.setdefault("crypto_fee", RP2Decimal("0"))
        if kw["crypto_fee"] is None:
            kw["crypto_fee"] = RP2Decimal("0")
        return OutTransaction(cfg, **kw)
    if table == "intra":
        for k in _INTRA_DEC:
            if k in kw:
                kw[k] = _dec(kw[k])
        return IntraTransaction(cfg, **kw)
    raise ValueError(f"unknown table {table}")


def build_input(
    cfg: Configuration,
    specs: Sequence[Dict[str, Any]],
    asset: str = "B1",
    from_date: Optional[date] = None,
    to_date: Optional[date] = None,
) -> InputData:
    """Build InputData the way parse_ods does: each table's rows are added in ascending row (sheet) order,
    and the from/to dates of the configuration are passed to InputData as well."""
    in_set = TransactionSet(cfg, "IN", asset, MIN_DATE, MAX_DATE)
    out_set = TransactionSet(cfg, "OUT", asset, MIN_DATE, MAX_DATE)
    intra_set = TransactionSet(cfg, "INTRA", asset, MIN_DATE, MAX_DATE)
    sets = {"in": in_set, "out": out_set, "intra": intra_set}
    for spec in sorted(specs, key=lambda s: s["row"]):
        sets[spec["table"]].add_entry(build_transaction(cfg, spec, asset))
    return InputData(
        asset,
        in_set,
        out_set,
        intra_set,
        cfg.from_date if from_date is None else from_date,
        cfg.to_date if to_date is None else to_date,
    )


class Outcome:
    __slots__ = ("computed", "error", "input_data")

    def __init__(self, computed: Optional[ComputedData], error: Optional[BaseException], input_data: Optional[InputData]):
        self.computed = computed
        self.error = error
        self.input_data = input_data

    @property
    def ok(self) -> bool:
        return self.error is None


def run(
    specs: Sequence[Dict[str, Any]],
    schedule: Sequence[Tuple[int, str]],
    cfg: Optional[Configuration] = None,
    asset: str = "B1",
) -> Outcome:
    """Execute the real pipeline on one history. RP2's own error types are returned, anything else propagates
    (an internal error such as KeyError is never an acceptable way to reject an input)."""
    cfg = cfg or configuration()
    try:
        input_data = build_input(cfg, specs, asset)
    except RP2Error as exc:
        return Outcome(None, exc, None)
    try:
        computed = compute_tax(cfg, engine(schedule), input_data)
    except RP2Error as exc:
        return Outcome(None, exc, input_data)
    return Outcome(computed, None, input_data)


def F(x: Any) -> Fraction:
    return Fraction(str(x))


def fractions_of(computed: ComputedData) -> List[Tuple[int, Optional[int], Fraction]]:
    """(event row, lot row or None, amount) in RP2's output order."""
    out = []
    for gl in computed.gain_loss_set:
        out.append((gl.taxable_event.row, gl.acquired_lot.row if gl.acquired_lot else None, F(gl.crypto_amount)))
    return out


def run_window(
    specs: Sequence[Dict[str, Any]],
    schedule: Sequence[Tuple[int, str]],
    from_date: Optional[date] = None,
    to_date: Optional[date] = None,
    country_code: str = "us",
    allow_negative_balances: bool = True,
    asset: str = "B1",
) -> Outcome:
    """The real pipeline under -f/-t: the dates go to the Configuration and to InputData, exactly as rp2_main + parse_ods do.
    Non-RP2 exceptions are returned as errors too (callers judge them)."""
    cfg = configuration(country_code, from_date or MIN_DATE, to_date or MAX_DATE, allow_negative_balances)
    try:
        input_data = build_input(cfg, specs, asset)
        computed = compute_tax(cfg, engine(schedule), input_data)
    except Exception as exc:  # pylint: disable=broad-except
        return Outcome(None, exc, None)
    return Outcome(computed, None, input_data)


def yearly_lines(computed: ComputedData) -> Tuple[Dict[Tuple[int, str, str, bool], Tuple[Fraction, Fraction, Fraction, Fraction]], List[Any]]:
    """({(year, asset, type, long?): (crypto, proceeds, cost, gain)}, duplicate keys)"""
    lines: Dict[Tuple[int, str, str, bool], Tuple[Fraction, Fraction, Fraction, Fraction]] = {}
    dups = []
    for y in computed.yearly_gain_loss_list:
        key = (y.year, y.asset, y.transaction_type.value, y.is_long_term_capital_gains)
        if key in lines:
            dups.append(key)
        lines[key] = (F(y.crypto_amount), F(y.fiat_amount), F(y.fiat_cost_basis), F(y.fiat_gain_loss))
    return lines, dups


def detail(computed: ComputedData) -> List[Dict[str, Any]]:
    """Plain rendering of every gain/loss fraction of a ComputedData, in its order."""
    gls = computed.gain_loss_set
    out = []
    for gl in gls:
        lot = gl.acquired_lot
        d = {
            "event": gl.taxable_event.row,
            "lot": lot.row if lot else None,
            "event_ts": gl.taxable_event.timestamp,
            "type": gl.taxable_event.transaction_type.value,
            "amount": F(gl.crypto_amount),
            "proceeds": F(gl.taxable_event_fiat_amount_with_fee_fraction),
            "cost": F(gl.fiat_cost_basis),
            "gain": F(gl.fiat_gain),
            "long": gl.is_long_term_capital_gains(),
            "event_k": gls.get_taxable_event_fraction(gl) + 1,
            "event_n": gls.get_taxable_event_number_of_fractions(gl.taxable_event),
            "lot_k": (gls.get_acquired_lot_fraction(gl) + 1) if lot else None,
            "lot_n": gls.get_acquired_lot_number_of_fractions(lot) if lot else None,
        }
        out.append(d)
    return out


def dump(computed: ComputedData) -> Dict[str, Any]:
    """Canonical plain-data rendering of everything a ComputedData exposes (exact rationals; keyed by spreadsheet row)."""
    d: Dict[str, Any] = {}
    d["in"] = [
        (t.row, F(computed.get_crypto_in_running_sum(t)), F(computed.get_crypto_in_fee_running_sum(t)), F(computed.get_in_lot_sold_percentage(t)))
        for t in computed.in_transaction_set
    ]
    d["out"] = [(t.row, F(computed.get_crypto_out_running_sum(t)), F(computed.get_crypto_out_fee_running_sum(t))) for t in computed.out_transaction_set]
    d["intra"] = [(t.row, F(computed.get_crypto_intra_fee_running_sum(t))) for t in computed.intra_transaction_set]
    d["taxable"] = [t.row for t in computed.taxable_event_set]
    rows = detail(computed)
    for r, gl in zip(rows, computed.gain_loss_set):
        r["running"] = F(computed.get_crypto_gain_loss_running_sum(gl))
    d["detail"] = rows
    lines, dups = yearly_lines(computed)
    d["yearly"] = lines
    d["yearly_dups"] = dups
    d["balances"] = [
        (b.exchange, b.holder, F(b.final_balance), F(b.acquired_balance), F(b.sent_balance), F(b.received_balance)) for b in computed.balance_set
    ]
    d["price_per_unit"] = F(computed.price_per_unit)
    return d


def try_dump(computed: ComputedData) -> Tuple[Optional[Dict[str, Any]], Optional[str]]:
    """dump(), or the error text when reading the figures back through RP2's own accessors raises (that is a result, not a harness failure)."""
    try:
        return dump(computed), None
    except Exception as exc:  # pylint: disable=broad-except
        return None, f"{type(exc).__name__} while reading the computed figures: {str(exc)[:160]}"


def diff_dumps(a: Dict[str, Any], b: Dict[str, Any], keys: Optional[Sequence[str]] = None) -> Optional[str]:
    """First difference between two dumps (None when equal)."""
    for k in keys or sorted(set(a) | set(b)):
        if a.get(k) != b.get(k):
            va, vb = a.get(k), b.get(k)
            if isinstance(va, list) and isinstance(vb, list):
                if len(va) != len(vb):
                    return f"{k}: {len(va)} entries vs {len(vb)}: {_short(va)} vs {_short(vb)}"
                for i, (x, y) in enumerate(zip(va, vb)):
                    if x != y:
                        if isinstance(x, dict) and isinstance(y, dict):
                            f = next(f for f in sorted(set(x) | set(y)) if x.get(f) != y.get(f))
                            return f"{k}[{i}] (event row {x.get('event')}, lot row {x.get('lot')}): {f} {x.get(f)} vs {y.get(f)}"
                        return f"{k}[{i}]: {x} vs {y}"
            if isinstance(va, dict) and isinstance(vb, dict):
                for kk in sorted(set(va) | set(vb), key=str):
                    if va.get(kk) != vb.get(kk):
                        return f"{k}[{kk}]: {va.get(kk)} vs {vb.get(kk)}"
            return f"{k}: {_short(va)} vs {_short(vb)}"
    return None


def _short(v: Any) -> str:
    s = str(v)
    return s if len(s) <= 160 else s[:157] + "..."
