"""Parser seam: plain row dicts + a column layout -> in-memory ezodf document + generated .ini -> rp2.ods_parser.parse_ods.

A row dict maps field names to plain values: text fields to str, numeric fields to decimal strings (written to the cell
as float, exactly as a spreadsheet stores them) or None (empty cell). The reference rendering `expected_*` applies the
documented defaults in exact rationals.
"""
from __future__ import annotations

import hashlib
import os
from fractions import Fraction
from typing import Any, Dict, List, Optional, Sequence, Tuple

from rp2verif import common

common.enter_scratch()

import ezodf  # noqa: E402
from rp2.configuration import MAX_DATE, MIN_DATE, Configuration  # noqa: E402
from rp2.ods_parser import open_ods, parse_ods  # noqa: E402

from rp2verif.seams import compute as C  # noqa: E402  (country objects, logger silencing)

from rp2verif.sheets import *  # noqa: E402,F401,F403
from rp2verif.sheets import F, Layout, ini_text  # noqa: E402,F401

_CFG: Dict[Tuple[Any, ...], Configuration] = {}


def write_ini(text: str, directory: Optional[str] = None) -> str:
    h = hashlib.sha1(text.encode()).hexdigest()[:16]
    path = os.path.join(directory or common.scratch(), f"cfg_{os.getpid()}_{h}.ini")
    if not os.path.exists(path):
        with open(path, "w", encoding="utf-8") as f:
            f.write(text)
    return path


def config_for(layout: Layout, country_code: str = "us", **kw: Any) -> Configuration:
    text = ini_text(layout, **kw)
    key = (text, country_code, os.getpid())
    cfg = _CFG.get(key)
    if cfg is None:
        if len(_CFG) > 4000:
            _CFG.clear()
        cfg = Configuration(write_ini(text), C.country(country_code), MIN_DATE, MAX_DATE, True)
        _CFG[key] = cfg
    return cfg


def build_doc(sheets: Dict[str, List[List[Any]]], filename: Optional[str] = None) -> Any:
    doc = ezodf.newdoc(doctype="ods", filename=filename or os.path.join(common.scratch(), f"mem_{os.getpid()}.ods"))
    for name, rows in sheets.items():
        width = max([len(r) for r in rows] + [1])
        sh = ezodf.Sheet(name, size=(max(len(rows), 1), width))
        for i, r in enumerate(rows):
            for j, v in enumerate(r):
                if v is not None:
                    sh[i, j].set_value(v)
        doc.sheets += sh
    return doc


def save_and_reopen(doc: Any, cfg: Configuration, path: str) -> Any:
    doc.saveas(path)
    return open_ods(cfg, path)


def observed(input_data: Any) -> Dict[str, List[Dict[str, Any]]]:
    """Plain rendering of the three unfiltered transaction sets (in their iteration order)."""
    out: Dict[str, List[Dict[str, Any]]] = {"in": [], "out": [], "intra": []}
    for t in input_data.unfiltered_in_transaction_set:
        out["in"].append({
            "row": t.row, "timestamp": t.timestamp, "asset": t.asset, "exchange": t.exchange, "holder": t.holder,
            "transaction_type": t.transaction_type.value.upper(), "spot_price": F(t.spot_price), "crypto_in": F(t.crypto_in),
            "crypto_fee": F(t.crypto_fee), "fiat_in_no_fee": F(t.fiat_in_no_fee), "fiat_in_with_fee": F(t.fiat_in_with_fee),
            "fiat_fee": F(t.fiat_fee), "unique_id": t.unique_id, "notes": t.notes,
        })
    for t in input_data.unfiltered_out_transaction_set:
        out["out"].append({
            "row": t.row, "timestamp": t.timestamp, "asset": t.asset, "exchange": t.exchange, "holder": t.holder,
            "transaction_type": t.transaction_type.value.upper(), "spot_price": F(t.spot_price), "crypto_out_no_fee": F(t.crypto_out_no_fee),
            "crypto_fee": F(t.crypto_fee), "crypto_out_with_fee": F(t.crypto_out_with_fee), "fiat_out_no_fee": F(t.fiat_out_no_fee),
            "fiat_fee": F(t.fiat_fee), "fiat_out_with_fee": F(t.fiat_out_with_fee), "unique_id": t.unique_id, "notes": t.notes,
        })
    for t in input_data.unfiltered_intra_transaction_set:
        out["intra"].append({
            "row": t.row, "timestamp": t.timestamp, "asset": t.asset, "from_exchange": t.from_exchange, "from_holder": t.from_holder,
            "to_exchange": t.to_exchange, "to_holder": t.to_holder, "spot_price": F(t.spot_price), "crypto_sent": F(t.crypto_sent),
            "crypto_received": F(t.crypto_received), "crypto_fee": F(t.crypto_fee), "fiat_fee": F(t.fiat_fee), "unique_id": t.unique_id,
            "notes": t.notes,
        })
    return out


