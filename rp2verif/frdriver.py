"""Case enumeration for the report read-back checks (C13, C19): asset B1 ranges over the multi-year history tree, asset B2
over fixed histories whose spreadsheet row numbers collide with B1's, both with unique ids on every row and sheet order
different from time order; windows and methods per tier."""
from __future__ import annotations

from datetime import date, timedelta
from typing import Any, Dict, Iterator, List, Optional, Sequence, Tuple

from rp2verif import history as H
from rp2verif.lottree import History, Tree
from rp2verif.models.lots import parse_ts

SYMBOLS = [
    H.B(1, 2), H.B(2, 1), H.E(1, 1, "INTEREST"),
    H.S(1), H.S(2), H.S(1, typ="GIFT"), H.S(1, typ="FEE"), H.M(2, 1),
    H.B(3, 2, fee="1/4"),  # purchase with a crypto fee: the parser splits it into the acquisition and an artificial FEE disposal
]
FIRST = [s for s in SYMBOLS if s[0] in ("B", "E")]
STEPS = ("d", "200d", "y")

# second asset: same spreadsheet row numbers as the first (8, 9, ...), lots consumed across years, a crypto-fee-like FEE row
SECOND = [
    ((H.B(2, 3), "="), (H.M(2, 1, src=0, dst=0), "d"), (H.S(1), "400d"), (H.S(1), "400d")),  # incl. a consolidation inside one account
    ((H.B(1, 1), "="), (H.B(3, 1), "d"), (H.S(2), "y"), (H.E(2, 1, "STAKING"), "d")),
    ((H.E(2, 2, "WAGES"), "="), (H.M(1, 1), "200d"), (H.S(1, typ="DONATE"), "200d")),
]

SCHEDULES = {"fifo": [(1970, "fifo")], "hifo": [(1970, "hifo")], "lifo": [(1970, "lifo")], "fifo->hifo@2021": [(1970, "fifo"), (2021, "hifo")]}


def specs_for(hist: History, prefix: str, row_order: str = "reverse", scale: Any = 1, price_scale: Any = 1, tz: int = 0, new_year: bool = False) -> Optional[List[Dict[str, Any]]]:
    if tz and new_year:
        # every timestamp written at that offset on New Year's Eve / New Year's Day: own YEAR != UTC year (21:30 on Dec 31 at -05:00 is Jan 1 in UTC,
        # 03:00 on Jan 1 at +09:00 is Dec 31 in UTC); steps of 200 / 400 days leave the boundary, steps of a year come back to it
        from datetime import datetime, timezone

        hist = tuple((it[0], "y" if it[1] in ("200d", "400d") and n % 2 else it[1], tz) for n, it in enumerate(hist))
        base = datetime(2021, 1, 1, 2, 30, 0, tzinfo=timezone.utc) if tz < 0 else datetime(2020, 12, 31, 18, 0, 0, tzinfo=timezone.utc)
        specs = H.materialize(hist, row_order=row_order, uid=True, scale=scale, price_scale=price_scale, base=base)
    elif tz:
        # every timestamp written in that UTC offset, instants starting at 18:00 UTC (offsets ahead of UTC) / 02:00 UTC (behind): own
        # calendar dates differ from the UTC dates
        from datetime import datetime, timezone

        hist = tuple((it[0], it[1], tz) for it in hist)
        specs = H.materialize(hist, row_order=row_order, uid=True, scale=scale, price_scale=price_scale, base=datetime(2020, 3, 1, 18 if tz > 0 else 2, 0, 0, tzinfo=timezone.utc))
    else:
        specs = H.materialize(hist, row_order=row_order, uid=True, scale=scale, price_scale=price_scale)
    if specs is None:
        return None
    for s in specs:
        s["unique_id"] = f"{prefix}{s['unique_id']}"
        s["notes"] = f"note {prefix}{s['row']}"
    return specs


def to_sheet(specs: Sequence[Dict[str, Any]], asset: str) -> Tuple[List[List[Any]], List[Dict[str, Any]]]:
    """The asset's spreadsheet (canonical column layout, tables IN / OUT / INTRA, rows in the order of spec['row']) and the
    specs re-keyed by the spreadsheet row each one lands on (that is the id RP2 gives the transaction)."""
    from rp2verif import sheets as S

    layout = S.canonical_layout()
    by_table: Dict[str, List[Dict[str, Any]]] = {"in": [], "out": [], "intra": []}
    for s in sorted(specs, key=lambda x: x["row"]):
        by_table[s["table"]].append(s)
    tables = []
    for t in ("in", "out", "intra"):
        if by_table[t]:
            tables.append((t, [dict({k: v for k, v in s.items() if k not in ("table", "sym", "row")}, asset=asset) for s in by_table[t]]))
    matrix, index = S.sheet_rows(tables, layout)
    flat = [s for t in ("in", "out", "intra") for s in by_table[t]]
    out = []
    for s, (_table, rownum, _rd) in zip(flat, index):
        s2 = dict(s)
        s2["sheet_order_key"] = s["row"]
        s2["row"] = rownum
        out.append(s2)
    return matrix, out


def event_dates(specs_list: Sequence[Sequence[Dict[str, Any]]]) -> List[date]:
    return sorted({parse_ts(s["timestamp"]).date() for specs in specs_list for s in specs})


def windows(dates: List[date], mode: str) -> List[Tuple[Optional[date], Optional[date]]]:
    """mode 'few': none, two from, two to, two from+to; 'all': every pair from <= to over the dates of interest."""
    first, last = dates[0], dates[-1]
    years = sorted({d.year for d in dates})
    if mode == "none":
        return [(None, None)]
    if mode == "few":
        mid = dates[len(dates) // 2]
        cand: List[Tuple[Optional[date], Optional[date]]] = [
            (None, None), (mid, None), (date(years[-1], 1, 1), None), (last + timedelta(days=1), None), (None, mid), (None, date(years[0], 12, 31)),
            (None, first - timedelta(days=1)), (mid, last), (date(years[-1], 1, 1), date(years[-1], 12, 31)), (mid, mid),
        ]
    elif mode == "three":
        mid = dates[len(dates) // 2]
        cand = [(None, None), (date(years[-1], 1, 1), None), (None, mid)]
    else:
        pts = set(dates)
        for d in dates:
            pts |= {d + timedelta(days=1), d - timedelta(days=1)}
        for y in years:
            pts |= {date(y, 1, 1), date(y, 12, 31), date(y, 7, 1)}
        ordered = sorted(pts)
        cand = [(None, None)] + [(f, None) for f in ordered] + [(None, t) for t in ordered] + [(f, t) for f in ordered for t in ordered if f <= t]
    out = []
    for f, t in cand:
        if f is not None and t is not None and f > t:
            continue
        if (f, t) not in out:
            out.append((f, t))
    return out


def histories(depth: int, steps: Sequence[str] = STEPS) -> Iterator[History]:
    tree = Tree(FIRST, SYMBOLS, steps, None)
    for d in range(1, depth + 1):
        for root in tree.roots(d):
            yield from tree.level(root, d)


def make_case(h1: History, second_index: Optional[int], schedule_name: str, window: Tuple[Optional[date], Optional[date]], country: str = "us", lang: str = "en",
              reports: Sequence[str] = ("rp2_full_report",), row_order: str = "reverse", row_order2: Optional[str] = None, scale: Any = 1,
              price_scale: Any = 1, tz: int = 0, new_year: bool = False) -> Optional[Dict[str, Any]]:
    s1 = specs_for(h1, "a", row_order, scale, price_scale, tz, new_year)
    if s1 is None:
        return None
    assets = {"B1": s1}
    label = H.hist_str(h1) + (f" [amounts x {scale}, prices x {price_scale}]" if (scale != 1 or price_scale != 1) else "") + (f" [all timestamps at UTC{tz / 60:+.0f}h{' around New Year' if new_year else ''}]" if tz else "")
    if second_index is not None:
        # by default the second asset's rows run the other way, so that a LATE row of one asset shares its number with an EARLY row of the other
        s2 = specs_for(SECOND[second_index], "b", row_order2 or ("chrono" if row_order == "reverse" else "reverse"), tz=tz, new_year=new_year)
        assert s2 is not None
        assets["B2"] = s2
        label += f" || B2: {H.hist_str(SECOND[second_index])}"
    sheets = {}
    for a in list(assets):
        sheets[a], assets[a] = to_sheet(assets[a], a)
    return {
        "label": label, "assets": assets, "sheets": sheets, "schedule": SCHEDULES[schedule_name], "schedule_name": schedule_name, "from": window[0], "to": window[1],
        "country": country, "lang": lang, "reports": list(reports), "allow_negative": True, "scale": str(scale), "price_scale": str(price_scale),
    }


def case_str(case: Dict[str, Any]) -> str:
    return f"{case['country']}/{case['lang']} {case['schedule_name']} -f {case['from']} -t {case['to']}: {case['label']}"


def bundled_cases(reports: Sequence[str], methods: Sequence[str] = ("fifo", "hifo"), mode: str = "few", country: str = "us", lang: str = "en",
                  allow_negative: bool = True, to_only: bool = False) -> List[Dict[str, Any]]:
    """The DATA of the 9 inputs bundled with RP2 (all asset sheets of a file in one run, rewritten in the canonical column layout; the files themselves
    go through the command line in C16) x methods x date windows, as cases for the generator seam. Asset names become B1..B4, exchanges X1..X4."""
    from rp2verif import bundled

    out = []
    for fname, assets in bundled.load().items():
        names = sorted(assets)
        amap = {a: f"B{i + 1}" for i, a in enumerate(names)}
        case_assets: Dict[str, Any] = {}
        sheets: Dict[str, Any] = {}
        for a in names:
            # the bundled rows carry no unique ids: give every row one (the report checks identify transactions by it)
            sheets[amap[a]], case_assets[amap[a]] = to_sheet([dict(s, unique_id=s.get("unique_id") or f"{amap[a]}-{s['table']}-{s['row']}") for s in assets[a]], amap[a])
        wins = windows(event_dates(list(case_assets.values())), mode)
        if to_only:
            wins = [w for w in wins if w[0] is None]
        own = bundled.schedule_of(fname)
        for m in list(methods) + (["own"] if own else []):
            sched = [(1970, m)] if m != "own" else [(int(y), x) for y, x in own]
            if m == "own":
                sched = [(1970, sched[0][1])] + sched  # the file's schedule starts in 2020; earlier years take its first method
            for w in wins:
                out.append({"label": f"data of the bundled input {fname}.ods ({len(names)} assets), {m if m != 'own' else 'its own schedule'} -f {w[0]} -t {w[1]}", "bundled": fname,
                            "hist": (), "second": None, "schedule_name": m if m != "own" else "the file's own schedule", "assets": case_assets, "sheets": sheets, "schedule": sched, "from": w[0], "to": w[1], "country": country, "lang": lang,
                            "reports": list(reports), "allow_negative": allow_negative, "ini_kw": {"assets": ["B1", "B2", "B3", "B4"], "exchanges": ["X1", "X2", "X3", "X4"]}})
    return out


def jsonable(case: Dict[str, Any]) -> Dict[str, Any]:
    c = dict(case)
    c["from"] = case["from"].isoformat() if case.get("from") else None
    c["to"] = case["to"].isoformat() if case.get("to") else None
    return c


def from_json(p: Dict[str, Any]) -> Dict[str, Any]:
    c = dict(p)
    c["from"] = date.fromisoformat(p["from"]) if p.get("from") else None
    c["to"] = date.fromisoformat(p["to"]) if p.get("to") else None
    c["schedule"] = [tuple(x) for x in p["schedule"]]
    return c
