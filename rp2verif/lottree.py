"""Prefix-tree enumeration of single-asset histories (shared by C01, C02, C09 ...).

The state graph is the prefix tree of histories: a node is the history that reaches it, an edge appends one
chronologically-last transaction. Levels are enumerated one depth at a time (so a capped run still has a completed
depth), each level partitioned by its depth-<=2 prefixes over forked workers.
"""
from __future__ import annotations

from fractions import Fraction
from typing import Any, Callable, Dict, Iterator, List, Optional, Sequence, Tuple

from rp2verif import history as H

History = Tuple[Tuple[Any, ...], ...]


def balance_track(hist: Sequence[Tuple[Any, ...]]) -> Tuple[bool, Fraction]:
    """(over-spent at the end of some instant?, final balance) from the symbols alone (scale-free; all accounts
    pooled, as the lot matcher sees them). Lots acquired at the same instant as a disposal count for it."""
    bal = Fraction(0)
    over = False
    for idx, item in enumerate(hist):
        sym, step = item[0], item[1]
        if idx > 0 and step != "=" and bal < 0:
            over = True
        k = sym[0]
        if k in ("B", "E"):
            bal += Fraction(sym[2]) - (Fraction(sym[5]) if k == "B" and len(sym) > 5 and sym[5] else 0)
        elif k == "S":
            fee = Fraction(sym[5])
            if sym[2] == H.ALL:
                amt = bal - fee
                if amt > 0:
                    bal -= amt + fee
            else:
                bal -= Fraction(sym[2]) + fee
        elif k == "M":
            bal -= Fraction(sym[5])
    if bal < 0:
        over = True
    return over, bal


def enabled(hist: Sequence[Tuple[Any, ...]]) -> bool:
    """S(ALL) needs something to sell at that point."""
    bal = Fraction(0)
    for item in hist:
        sym = item[0]
        k = sym[0]
        if k in ("B", "E"):
            bal += Fraction(sym[2]) - (Fraction(sym[5]) if k == "B" and len(sym) > 5 and sym[5] else 0)
        elif k == "S":
            fee = Fraction(sym[5])
            if sym[2] == H.ALL:
                if bal - fee <= 0:
                    return False
                bal = Fraction(0)
            else:
                bal -= Fraction(sym[2]) + fee
        elif k == "M":
            bal -= Fraction(sym[5])
    return True


class Tree:
    def __init__(
        self,
        first: Sequence[Tuple[Any, ...]],
        symbols: Sequence[Tuple[Any, ...]],
        steps: Sequence[str],
        overspent_extra_levels: Optional[int] = None,
    ) -> None:
        """first: symbols allowed at position 0 (acquisitions); symbols/steps: alphabet for later positions.
        overspent_extra_levels: None -> over-spending histories are not generated at all (valid histories only);
        k -> a history is generated iff its prefix without the last k items... i.e. an over-spent node is still
        extended by k more levels (then cut)."""
        self.first = list(first)
        self.symbols = list(symbols)
        self.steps = list(steps)
        self.extra = overspent_extra_levels

    def children(self, hist: History) -> Iterator[History]:
        if not hist:
            for s in self.first:
                yield ((s, "="),)
            return
        for step in self.steps:
            for s in self.symbols:
                yield hist + ((s, step),)

    def expandable(self, hist: History) -> bool:
        """May `hist` have children in the tree?"""
        if not enabled(hist):
            return False
        over = balance_track(hist)[0]
        if not over:
            return True
        if self.extra is None:
            return False
        # over-spent: find the length of the shortest over-spent prefix
        first_over = next(n for n in range(1, len(hist) + 1) if balance_track(hist[:n])[0])
        return len(hist) - first_over < self.extra

    def member(self, hist: History) -> bool:
        if not enabled(hist):
            return False
        if self.extra is None:
            return not balance_track(hist)[0]
        return True

    def level(self, root: History, depth: int) -> Iterator[History]:
        """All tree nodes of exactly `depth` below (and including) root."""
        if len(root) == depth:
            if self.member(root):
                yield root
            return
        if not self.expandable(root):
            return
        for child in self.children(root):
            if not enabled(child):
                continue
            if len(child) == depth:
                if self.member(child):
                    yield child
            else:
                yield from self.level(child, depth)

    def roots(self, depth: int, root_depth: int = 2) -> List[History]:
        rd = min(root_depth, depth)
        out: List[History] = []

        def rec(h: History) -> None:
            if len(h) == rd:
                out.append(h)
                return
            if h and not self.expandable(h):
                return
            for c in self.children(h):
                if enabled(c):
                    rec(c)

        rec(())
        return out
