"""Oracles on the read-back of rp2_full_report.ods (shared by C13 and C19).

`res` is the result of seams.generator.run: res["files"][<file>] = {sheet: rows}, res["dumps"][asset] = rendering of the
ComputedData the generator was given, res["names"] = translated strings of the run's language.
Tables are located by their (translated) titles, data rows by a key column - not by recomputing RP2's row arithmetic.
"""
from __future__ import annotations

from datetime import date
from fractions import Fraction
from typing import Any, Dict, List, Optional, Sequence, Tuple

from rp2verif import odsread as O
from rp2verif.models.lots import F, parse_ts


def report_file(res: Dict[str, Any]) -> Optional[str]:
    return next((f for f in res["files"] if f.endswith("rp2_full_report.ods")), None)


def _tr(res: Dict[str, Any], s: str) -> str:
    return res["names"].get(s, s)


def _one_title(rows: List[List[Any]], title: str, what: str, problems: List[str]) -> Optional[int]:
    hits = O.find_rows(rows, title)
    if len(hits) != 1:
        problems.append(f"{what}: table title '{title}' found {len(hits)} times")
        return None
    return hits[0]


def _cmp(problems: List[str], where: str, got: Any, want: Any) -> None:
    if isinstance(want, Fraction):
        if not O.close(got, want):
            problems.append(f"{where}: {O.plain(got)!r} != computed {float(want)!r}")
    else:
        g = O.plain(got)
        if g != want and not (O.is_blank(g) and O.is_blank(want)):
            problems.append(f"{where}: {g!r} != {want!r}")


def sheet_name(res: Dict[str, Any], pattern: str, asset: str) -> str:
    return _tr(res, pattern).format(asset)


def independent_sums(specs: Sequence[Dict[str, Any]], D: Dict[str, Any]) -> Optional[Dict[str, Dict[int, Any]]]:
    """Running sums recomputed from the input rows (ALL rows of the asset in time order, hidden ones included) and sold
    percentages recomputed from the fractions shown. None when two rows of a table share an instant (order unspecified)."""
    from rp2verif.models.lots import F, parse_ts

    out: Dict[str, Dict[Any, Any]] = {"in": {}, "out": {}, "out_fee": {}, "intra_fee": {}, "sold": {}}
    # a purchase with a crypto fee is an acquisition plus an artificial fee-only disposal at the same instant
    allspecs = list(specs) + [{"table": "out", "timestamp": s["timestamp"], "crypto_out_no_fee": "0", "crypto_fee": s["crypto_fee"]}
                              for s in specs if s["table"] == "in" and F(s.get("crypto_fee") or 0) > 0]
    for table in ("in", "out", "intra"):
        rows = sorted((s for s in allspecs if s["table"] == table), key=lambda s: parse_ts(s["timestamp"]))
        inst = [parse_ts(s["timestamp"]).timestamp() for s in rows]
        if len(set(inst)) != len(inst):
            return None
        a = b = Fraction(0)
        for s, key in zip(rows, inst):  # keyed by instant (distinct within a table)
            if table == "in":
                a += F(s["crypto_in"])
                out["in"][key] = a
            elif table == "out":
                a += F(s["crypto_out_no_fee"])
                b += F(s.get("crypto_fee") or 0)
                out["out"][key] = a
                out["out_fee"][key] = b
            else:
                b += F(s["crypto_sent"]) - F(s["crypto_received"])
                out["intra_fee"][key] = b
    amount = {s["row"]: F(s["crypto_in"]) for s in specs if s["table"] == "in"}
    shown_lots = {r["row"] for r in D["in_rows"]}
    for r in D["detail"]:
        if r["lot"] is not None and r["lot"] in shown_lots and r["lot"] in amount:
            out["sold"][r["lot"]] = out["sold"].get(r["lot"], Fraction(0)) + r["amount"] / amount[r["lot"]]
    return out


def check_in_out(res: Dict[str, Any], asset: str, problems: List[str], specs: Optional[Sequence[Dict[str, Any]]] = None,
                 window: Optional[Tuple[Optional[date], Optional[date]]] = None) -> Dict[str, Dict[int, int]]:
    """In/Out/Intra tables == the transactions of the window, once, in time order, with running sums and sold %.
    Returns {table: {transaction row id: 1-based sheet row}} (used by the link oracle)."""
    f = report_file(res)
    assert f
    D = res["dumps"][asset]
    name = sheet_name(res, "{} In-Out", asset)
    where_of: Dict[str, Dict[int, int]] = {"in": {}, "out": {}, "intra": {}}
    rows = res["files"][f].get(name)
    if rows is None:
        problems.append(f"sheet '{name}' missing")
        return where_of
    yes, no = _tr(res, "YES"), _tr(res, "NO")
    ind = independent_sums(specs, D) if specs is not None else None
    if specs is not None and window is not None:
        # which transactions the window shows, from the input rows alone: those whose OWN calendar date lies in [from, to]
        fd, td = window
        for table, key in (("in", "in_rows"), ("out", "out_rows"), ("intra", "intra_rows")):
            want_rows = sorted(s2["row"] for s2 in specs if s2["table"] == table and (fd is None or parse_ts(s2["timestamp"]).date() >= fd)
                               and (td is None or parse_ts(s2["timestamp"]).date() <= td))
            got_rows = sorted(r["row"] for r in D[key] if r["row"] > 0)
            if got_rows != want_rows:
                problems.append(f"{name} / {table.upper()} table: transactions of rows {got_rows} are in the computed window, rows dated inside the window are {want_rows}")
    if specs is not None and window is not None:
        fd, td = window
        earn = ("AIRDROP", "HARDFORK", "INCOME", "INTEREST", "MINING", "STAKING", "WAGES")
        want_ev = sorted({s2["row"] for s2 in specs
                          if (s2["table"] == "out" or (s2["table"] == "in" and s2["transaction_type"].upper() in earn)
                              or (s2["table"] == "intra" and F(s2["crypto_sent"]) != F(s2["crypto_received"])))
                          and (fd is None or parse_ts(s2["timestamp"]).date() >= fd) and (td is None or parse_ts(s2["timestamp"]).date() <= td)})
        got_ev = sorted({r["event"] for r in D["detail"] if r["event"] > 0})
        if got_ev != want_ev:
            problems.append(f"{name} / gain-loss fractions of event rows {got_ev} are in the computed window, taxable rows dated inside the window are {want_ev}")
    if specs is not None and window is not None:
        # the balances from a reference replay of the input rows (all history up to the to-date): acquired / sent / received / final
        from rp2verif.models import accounts as MA

        ref = MA.balances(specs, window[1])
        gotb = {(b[0], b[1]): b for b in D["balances"]}
        for acct_key in sorted(set(ref) | set(gotb)):
            r, g = ref.get(acct_key), gotb.get(acct_key)
            if r is None or g is None:
                problems.append(f"{name} / balances: account {acct_key} {'missing from' if g is None else 'only in'} the computed balances")
                continue
            for pos, fig in ((3, "acquired"), (4, "sent"), (5, "received"), (2, "final")):
                if g[pos] != r[fig]:
                    problems.append(f"{name} / balances: account {acct_key} {fig} {g[pos]} != {r[fig]} from its transactions")
    if ind is not None:
        for w in D["in_rows"]:
            k = w["timestamp"].timestamp()
            if k in ind["in"] and w["running"] != ind["in"][k]:
                problems.append(f"{name} / In-Flow transaction row {w['row']}: crypto-in running sum {w['running']} != sum of all acquisitions up to it {ind['in'][k]}")
            want_sold = ind["sold"].get(w["row"], Fraction(0))
            if abs(w["sold_pct"] - want_sold) > Fraction(1, 10**15):
                problems.append(f"{name} / In-Flow transaction row {w['row']}: sold % {float(w['sold_pct'])} != fractions shown for this lot / lot amount = {float(want_sold)}")
        for w in D["out_rows"]:
            k = w["timestamp"].timestamp()
            if k in ind["out"] and (w["running"] != ind["out"][k] or w["fee_running"] != ind["out_fee"][k]):
                problems.append(f"{name} / Out-Flow transaction row {w['row']}: running sums ({w['running']}, {w['fee_running']}) != sums of all disposals up to it "
                                f"({ind['out'][k]}, {ind['out_fee'][k]})")
        for w in D["intra_rows"]:
            k = w["timestamp"].timestamp()
            if k in ind["intra_fee"] and w["fee_running"] != ind["intra_fee"][k]:
                problems.append(f"{name} / Intra-Flow transaction row {w['row']}: fee running sum {w['fee_running']} != sum of all transfer fees up to it {ind['intra_fee'][k]}")
    # ---- IN
    t = _one_title(rows, _tr(res, "In-Flow Detail"), name, problems)
    if t is not None:
        _start, idx = O.table_after(rows, t, key_col=1)
        want = D["in_rows"]
        if len(idx) != len(want):
            problems.append(f"{name} / In-Flow: {len(idx)} rows shown, {len(want)} in-transactions in the window")
        for k, (i, w) in enumerate(zip(idx, want)):
            r = rows[i]
            tag = f"{name} / In-Flow row {k + 1} (transaction row {w['row']})"
            where_of["in"][w["row"]] = i + 1
            if w["sold_pct"] != 0 or k == 0:
                _cmp(problems, f"{tag} sold %", O.cell(rows, i, 0), w["sold_pct"])
            elif not O.is_blank(O.cell(rows, i, 0)):
                problems.append(f"{tag} sold %: {O.cell(rows, i, 0)!r} shown for a lot nothing was taken from")
            for col, key in ((1, None), (2, "asset"), (3, "exchange"), (4, "holder"), (6, "spot"), (7, "crypto_in"), (8, "running"), (9, "fiat_fee"),
                             (10, "fiat_in_no_fee"), (11, "fiat_in_with_fee"), (14, "unique_id"), (15, "notes")):
                _cmp(problems, f"{tag} col {col} ({key or 'timestamp'})", O.cell(rows, i, col), str(w["timestamp"]) if key is None else w[key])
            _cmp(problems, f"{tag} taxable", O.cell(rows, i, 12), yes if w["taxable"] else no)
            if res.get("lang", "en") == "en":
                _cmp(problems, f"{tag} type", O.cell(rows, i, 5), w["type"])
        if [w["timestamp"] for w in want] != sorted(w["timestamp"] for w in want):
            problems.append(f"{name} / In-Flow: computed rows are not in time order")
    # ---- OUT
    t = _one_title(rows, _tr(res, "Out-Flow Detail"), name, problems)
    if t is not None:
        _start, idx = O.table_after(rows, t, key_col=1)
        want = D["out_rows"]
        if len(idx) != len(want):
            problems.append(f"{name} / Out-Flow: {len(idx)} rows shown, {len(want)} out-transactions in the window")
        for k, (i, w) in enumerate(zip(idx, want)):
            tag = f"{name} / Out-Flow row {k + 1} (transaction row {w['row']})"
            where_of["out"][w["row"]] = i + 1
            for col, key in ((1, None), (2, "asset"), (3, "exchange"), (4, "holder"), (6, "spot"), (7, "crypto_out_no_fee"), (8, "crypto_fee"), (9, "running"),
                             (10, "fee_running"), (11, "fiat_out_no_fee"), (12, "fiat_fee"), (14, "unique_id"), (15, "notes")):
                _cmp(problems, f"{tag} col {col} ({key or 'timestamp'})", O.cell(rows, i, col), str(w["timestamp"]) if key is None else w[key])
            _cmp(problems, f"{tag} taxable", O.cell(rows, i, 13), yes if w["taxable"] else no)
            if res.get("lang", "en") == "en":
                _cmp(problems, f"{tag} type", O.cell(rows, i, 5), w["type"])
    # ---- INTRA
    t = _one_title(rows, _tr(res, "Intra-Flow Detail"), name, problems)
    if t is not None:
        _start, idx = O.table_after(rows, t, key_col=1)
        want = D["intra_rows"]
        if len(idx) != len(want):
            problems.append(f"{name} / Intra-Flow: {len(idx)} rows shown, {len(want)} intra-transactions in the window")
        for k, (i, w) in enumerate(zip(idx, want)):
            tag = f"{name} / Intra-Flow row {k + 1} (transaction row {w['row']})"
            where_of["intra"][w["row"]] = i + 1
            for col, key in ((1, None), (2, "asset"), (3, "from_exchange"), (4, "from_holder"), (5, "to_exchange"), (6, "to_holder"), (7, "spot"), (8, "crypto_sent"),
                             (9, "crypto_received"), (10, "crypto_fee"), (11, "fee_running"), (12, "fiat_fee"), (14, "unique_id"), (15, "notes")):
                _cmp(problems, f"{tag} col {col} ({key or 'timestamp'})", O.cell(rows, i, col), str(w["timestamp"]) if key is None else w[key])
            _cmp(problems, f"{tag} taxable", O.cell(rows, i, 13), yes if w["taxable"] else no)
    return where_of


def check_tax_sheet(res: Dict[str, Any], asset: str, problems: List[str]) -> Tuple[List[int], Optional[List[List[Any]]]]:
    """Gain/Loss Summary, Account Balances (+ per-holder totals), Average Price and Gain/Loss Detail of '<asset> Tax'.
    Returns (sheet row indices of the detail rows, the sheet)."""
    f = report_file(res)
    assert f
    D = res["dumps"][asset]
    name = sheet_name(res, "{} Tax", asset)
    rows = res["files"][f].get(name)
    if rows is None:
        problems.append(f"sheet '{name}' missing")
        return [], None
    long_s, short_s = _tr(res, "LONG"), _tr(res, "SHORT")
    en = res.get("lang", "en") == "en"
    # summary
    t = _one_title(rows, _tr(res, "Gain / Loss Summary"), name, problems)
    if t is not None:
        _s, idx = O.table_after(rows, t, key_col=0)
        want = D["yearly_order"]
        if len(idx) != len(want):
            problems.append(f"{name} / Gain-Loss Summary: {len(idx)} lines shown, {len(want)} computed")
        for k, (i, w) in enumerate(zip(idx, want)):
            tag = f"{name} / Gain-Loss Summary line {k + 1} {w[:4]}"
            _cmp(problems, f"{tag} year", O.cell(rows, i, 0), Fraction(w[0]))
            _cmp(problems, f"{tag} asset", O.cell(rows, i, 1), w[1])
            _cmp(problems, f"{tag} gain", O.cell(rows, i, 2), w[7])
            _cmp(problems, f"{tag} long/short", O.cell(rows, i, 3), long_s if w[3] else short_s)
            if en:
                _cmp(problems, f"{tag} type", O.cell(rows, i, 4), w[2])
            _cmp(problems, f"{tag} crypto", O.cell(rows, i, 5), w[4])
            _cmp(problems, f"{tag} proceeds", O.cell(rows, i, 6), w[5])
            _cmp(problems, f"{tag} cost", O.cell(rows, i, 7), w[6])
    # balances
    t = _one_title(rows, _tr(res, "Account Balances"), name, problems)
    if t is not None:
        _s, idx = O.table_after(rows, t, key_col=0)
        total_s = _tr(res, "Total")
        acct = [i for i in idx if O.plain(O.cell(rows, i, 0)) != total_s]
        tot = [i for i in idx if O.plain(O.cell(rows, i, 0)) == total_s]
        want = D["balances"]
        if len(acct) != len(want):
            problems.append(f"{name} / Account Balances: {len(acct)} account lines shown, {len(want)} computed")
        for i, w in zip(acct, want):
            tag = f"{name} / Account Balances {w[0]}/{w[1]}"
            _cmp(problems, f"{tag} exchange", O.cell(rows, i, 0), w[0])
            _cmp(problems, f"{tag} holder", O.cell(rows, i, 1), w[1])
            _cmp(problems, f"{tag} asset", O.cell(rows, i, 2), asset)
            _cmp(problems, f"{tag} acquired", O.cell(rows, i, 3), w[3])
            _cmp(problems, f"{tag} sent", O.cell(rows, i, 4), w[4])
            _cmp(problems, f"{tag} received", O.cell(rows, i, 5), w[5])
            _cmp(problems, f"{tag} final", O.cell(rows, i, 6), w[2])
        holders: Dict[str, Fraction] = {}
        for w in want:
            holders[w[1]] = holders.get(w[1], Fraction(0)) + w[2]
        got_tot = {O.plain(O.cell(rows, i, 1)): O.cell(rows, i, 6) for i in tot}
        if sorted(got_tot) != sorted(holders) or len(tot) != len(holders):
            problems.append(f"{name} / Account Balances: holder totals for {sorted(map(str, got_tot))}, holders with accounts {sorted(holders)}")
        for h, v in holders.items():
            if h in got_tot:
                _cmp(problems, f"{name} / Account Balances total of holder {h}", got_tot[h], v)
    # average price
    hits = O.find_rows(rows, _tr(res, "Average Price"))
    if len(hits) != 2:
        problems.append(f"{name}: 'Average Price' block not found")
    else:
        _cmp(problems, f"{name} / Average Price", O.cell(rows, hits[0] + 3, 0), D["price_per_unit"])
    # detail
    detail_idx: List[int] = []
    t = _one_title(rows, _tr(res, "Gain / Loss Detail"), name, problems)
    if t is not None:
        _s, detail_idx = O.table_after(rows, t, key_col=1)
        want = D["detail"]
        if len(detail_idx) != len(want):
            problems.append(f"{name} / Gain-Loss Detail: {len(detail_idx)} rows shown, {len(want)} fractions in the window")
        for k, (i, w) in enumerate(zip(detail_idx, want)):
            tag = f"{name} / Gain-Loss Detail row {k + 1} (event row {w['event']}, lot row {w['lot']})"
            _cmp(problems, f"{tag} amount", O.cell(rows, i, 0), w["amount"])
            _cmp(problems, f"{tag} asset", O.cell(rows, i, 1), asset)
            _cmp(problems, f"{tag} running sum", O.cell(rows, i, 2), w["running"])
            _cmp(problems, f"{tag} gain", O.cell(rows, i, 3), w["gain"])
            _cmp(problems, f"{tag} long/short", O.cell(rows, i, 4), long_s if w["long"] else short_s)
            _cmp(problems, f"{tag} event timestamp", O.cell(rows, i, 5), str(w["event_ts"]))
            if en:
                _cmp(problems, f"{tag} direction/type", O.cell(rows, i, 6), f"{w['event_table']} / {w['type'].upper()}")
            _cmp(problems, f"{tag} event fraction %", O.cell(rows, i, 7), w["event_pct"])
            _cmp(problems, f"{tag} proceeds", O.cell(rows, i, 8), w["proceeds"])
            _cmp(problems, f"{tag} event spot price", O.cell(rows, i, 9), w["event_spot"])
            _cmp(problems, f"{tag} event unique id", O.cell(rows, i, 10), w["event_uid"])
            note = O.plain(O.cell(rows, i, 11))
            want_note = f"{w['event_k']}/{w['event_n']}: "
            if not isinstance(note, str) or not note.startswith(want_note):
                problems.append(f"{tag} event fraction label {note!r} does not start with '{want_note}'")
            if w["lot"] is not None:
                _cmp(problems, f"{tag} lot timestamp", O.cell(rows, i, 12), str(w["lot_ts"]))
                _cmp(problems, f"{tag} lot fraction %", O.cell(rows, i, 13), w["lot_pct"])
                _cmp(problems, f"{tag} lot amount fraction", O.cell(rows, i, 14), w["lot_fiat_with_fee_fraction"])
                _cmp(problems, f"{tag} lot fee fraction", O.cell(rows, i, 15), w["lot_fee_fraction"])
                _cmp(problems, f"{tag} cost basis", O.cell(rows, i, 16), w["cost"])
                _cmp(problems, f"{tag} lot spot price", O.cell(rows, i, 17), w["lot_spot"])
                _cmp(problems, f"{tag} lot unique id", O.cell(rows, i, 18), w["lot_uid"])
                note = O.plain(O.cell(rows, i, 19))
                want_note = f"{w['lot_k']}/{w['lot_n']}: "
                if not isinstance(note, str) or not note.startswith(want_note):
                    problems.append(f"{tag} lot fraction label {note!r} does not start with '{want_note}'")
            else:
                for c in range(12, 20):
                    if not O.is_blank(O.plain(O.cell(rows, i, c))):
                        problems.append(f"{tag}: income fraction shows an acquired-lot value in column {c}: {O.plain(O.cell(rows, i, c))!r}")
                        break
    return detail_idx, rows


def check_summary_and_legend(res: Dict[str, Any], case: Dict[str, Any], problems: List[str]) -> None:
    f = report_file(res)
    assert f
    files = res["files"][f]
    long_s, short_s = _tr(res, "LONG"), _tr(res, "SHORT")
    sname = _tr(res, "Summary")
    rows = files.get(sname)
    if rows is None:
        problems.append(f"sheet '{sname}' missing")
    else:
        t = _one_title(rows, _tr(res, "Yearly Gain / Loss Summary"), sname, problems)
        if t is not None:
            _s, idx = O.table_after(rows, t, key_col=0)
            want = [w for a in sorted(res["dumps"]) for w in res["dumps"][a]["yearly_order"]]
            if len(idx) != len(want):
                problems.append(f"{sname}: {len(idx)} lines shown, {len(want)} yearly lines computed over all assets")
            for k, (i, w) in enumerate(zip(idx, want)):
                tag = f"{sname} line {k + 1} {w[:4]}"
                _cmp(problems, f"{tag} year", O.cell(rows, i, 0), Fraction(w[0]))
                _cmp(problems, f"{tag} asset", O.cell(rows, i, 1), w[1])
                _cmp(problems, f"{tag} gain", O.cell(rows, i, 2), w[7])
                _cmp(problems, f"{tag} long/short", O.cell(rows, i, 3), long_s if w[3] else short_s)
                _cmp(problems, f"{tag} crypto", O.cell(rows, i, 5), w[4])
                _cmp(problems, f"{tag} proceeds", O.cell(rows, i, 6), w[5])
                _cmp(problems, f"{tag} cost", O.cell(rows, i, 7), w[6])
    # sheet set and order: Legend, Summary, then In-Out / Tax per asset
    want_sheets = [_tr(res, "Legend"), sname] + [n for a in sorted(res["dumps"]) for n in (sheet_name(res, "{} In-Out", a), sheet_name(res, "{} Tax", a))]
    if list(files) != want_sheets:
        problems.append(f"sheets {list(files)} != expected {want_sheets}")
    check_legend(files.get(_tr(res, "Legend")), res, case, problems, "full report")


def check_legend(rows: Optional[List[List[Any]]], res: Dict[str, Any], case: Dict[str, Any], problems: List[str], what: str) -> None:
    if rows is None:
        problems.append(f"{what}: Legend sheet missing")
        return
    hits = O.find_rows(rows, _tr(res, "Accounting Method"))
    if not hits:
        problems.append(f"{what}: Legend has no 'Accounting Method' line")
        return
    i = hits[0]
    sch = [tuple(x) for x in case["schedule"]]
    got = str(O.plain(O.cell(rows, i, 1)))
    if len(sch) == 1:
        if got != sch[0][1].upper():
            problems.append(f"{what}: Legend says method {got!r}, run used {sch[0][1]}")
    else:
        for y, m in sch:
            if m.upper() not in got or (y != 1970 and str(y) not in got):
                problems.append(f"{what}: Legend method line {got!r} does not mention {y}:{m}")
    for off, key, label in ((1, "from", "From Date Filter"), (2, "to", "To Date Filter")):
        if O.plain(O.cell(rows, i + off, 0)) != _tr(res, label):
            problems.append(f"{what}: Legend line {i + off} is not '{label}'")
        v = O.plain(O.cell(rows, i + off, 1))
        d: Optional[date] = case.get(key)
        if d is None:
            if v != "non-specified":
                problems.append(f"{what}: Legend {label} shows {v!r}, no such filter was given")
        elif str(v)[:10] != d.isoformat():
            problems.append(f"{what}: Legend {label} shows {v!r}, the run used {d}")


def label_problem(rows: Sequence[Dict[str, Any]]) -> Optional[str]:
    """'k/n' labels recomputed from the fraction list itself (only meaningful when the list holds every fraction up to the to-date,
    i.e. without a from-date): k = how many fractions of the same event / lot so far, n = how many in total."""
    ev_total: Dict[Any, int] = {}
    lot_total: Dict[Any, int] = {}
    for r in rows:
        ev_total[r["event"]] = ev_total.get(r["event"], 0) + 1
        if r["lot"] is not None:
            lot_total[r["lot"]] = lot_total.get(r["lot"], 0) + 1
    ev_seen: Dict[Any, int] = {}
    lot_seen: Dict[Any, int] = {}
    for r in rows:
        ev_seen[r["event"]] = ev_seen.get(r["event"], 0) + 1
        if (r["event_k"], r["event_n"]) != (ev_seen[r["event"]], ev_total[r["event"]]):
            return f"fraction (event row {r['event']}, lot row {r['lot']}) labelled {r['event_k']}/{r['event_n']} of its event; it is {ev_seen[r['event']]} of {ev_total[r['event']]}"
        if r["lot"] is not None:
            lot_seen[r["lot"]] = lot_seen.get(r["lot"], 0) + 1
            if (r["lot_k"], r["lot_n"]) != (lot_seen[r["lot"]], lot_total[r["lot"]]):
                return f"fraction (event row {r['event']}, lot row {r['lot']}) labelled {r['lot_k']}/{r['lot_n']} of its lot; it is {lot_seen[r['lot']]} of {lot_total[r['lot']]}"
    return None


def check_c13(case: Dict[str, Any], res: Dict[str, Any]) -> List[str]:
    problems: List[str] = []
    if report_file(res) is None:
        return [f"no rp2_full_report.ods was written (files: {list(res['files'])})"]
    if not case.get("from"):
        for asset in sorted(res["dumps"]):
            lp = label_problem(res["dumps"][asset]["detail"])
            if lp:
                problems.append(f"{sheet_name(res, '{} Tax', asset)} / Gain-Loss Detail fraction labels: {lp}")
    for asset in sorted(res["dumps"]):
        check_in_out(res, asset, problems, case["assets"].get(asset), (case.get("from"), case.get("to")))
        check_tax_sheet(res, asset, problems)
    check_summary_and_legend(res, case, problems)
    return problems


def check_c19(case: Dict[str, Any], res: Dict[str, Any]) -> Tuple[List[str], Dict[str, int]]:
    """Every hyperlink leads to the row of the same transaction; hidden transactions carry no link; summary lines link to
    the first detail row of their year."""
    problems: List[str] = []
    counts = {"links": 0, "unlinked_hidden": 0, "summary_links": 0}
    f = report_file(res)
    if f is None:
        return [f"no rp2_full_report.ods was written (files: {list(res['files'])})"], counts
    files = res["files"][f]
    first_row_of_year: Dict[Tuple[str, int], int] = {}
    for asset in sorted(res["dumps"]):
        D = res["dumps"][asset]
        scratch: List[str] = []
        where_of = check_in_out(res, asset, scratch)
        detail_idx, tax = check_tax_sheet(res, asset, scratch)
        if tax is None:
            problems.append(f"sheet for {asset} missing")
            continue
        in_out_name = sheet_name(res, "{} In-Out", asset)
        in_out = files.get(in_out_name) or []
        shown = {"IN": where_of["in"], "OUT": where_of["out"], "INTRA": where_of["intra"]}
        for i, w in zip(detail_idx, D["detail"]):
            y = w["event_year"]
            first_row_of_year.setdefault((asset, y), i + 1)
            for what, cols, table, rowid, uid in (("taxable event", range(5, 12), w["event_table"], w["event"], w["event_uid"]),
                                                   ("acquired lot", range(12, 20), "IN", w["lot"], w["lot_uid"])):
                if rowid is None:
                    continue
                target = shown[table].get(rowid)
                for c in cols:
                    cell = O.cell(tax, i, c)
                    link = O.parse_link(cell)
                    tag = f"{sheet_name(res, '{} Tax', asset)} row {i + 1} col {c} ({what}, transaction row {rowid}, id {uid})"
                    if target is None:
                        # the transaction is hidden by the date filter: no link may be shown
                        if link is not None:
                            problems.append(f"{tag}: transaction is not shown in '{in_out_name}', yet the cell links to {link.sheet} row {link.row}")
                        else:
                            counts["unlinked_hidden"] += 1
                        continue
                    if link is None:
                        if isinstance(cell, O.Formula):
                            problems.append(f"{tag}: unparsable formula {cell.text!r}")
                        else:
                            problems.append(f"{tag}: no link although the transaction is shown on row {target} of '{in_out_name}'")
                        continue
                    counts["links"] += 1
                    if link.sheet != in_out_name:
                        problems.append(f"{tag}: link goes to sheet '{link.sheet}', expected '{in_out_name}'")
                        continue
                    uid_at = O.plain(O.cell(in_out, link.row - 1, 14))
                    ts_at = O.plain(O.cell(in_out, link.row - 1, 1))
                    if link.row != target or uid_at != uid:
                        problems.append(f"{tag}: link goes to row {link.row} (unique id {uid_at!r}, timestamp {ts_at!r}); the transaction is on row {target}")
    # summary links
    sname = _tr(res, "Summary")
    rows = files.get(sname) or []
    hits = O.find_rows(rows, _tr(res, "Yearly Gain / Loss Summary"))
    if hits:
        _s, idx = O.table_after(rows, hits[0], key_col=0)
        want = [w for a in sorted(res["dumps"]) for w in res["dumps"][a]["yearly_order"]]
        for i, w in zip(idx, want):
            year, asset = w[0], w[1]
            tax_name = sheet_name(res, "{} Tax", asset)
            target = first_row_of_year.get((asset, year))
            for c in range(0, 8):
                link = O.parse_link(O.cell(rows, i, c))
                tag = f"{sname} line {w[:4]} col {c}"
                if target is None:
                    # no detail row of that year is shown (the from-date hides them): a link would lead nowhere
                    if link is not None:
                        problems.append(f"{tag}: links to {link.sheet} row {link.row} although no {year} fraction of {asset} is shown")
                    continue
                if link is None:
                    problems.append(f"{tag}: no link to the first {year} row of '{tax_name}'")
                    continue
                counts["summary_links"] += 1
                if link.sheet != tax_name or link.row != target:
                    problems.append(f"{tag}: links to '{link.sheet}' row {link.row}; the first {year} detail row of {asset} is '{tax_name}' row {target}")
    return problems, counts
