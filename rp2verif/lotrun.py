"""Schedules and the level-by-level phase runner shared by the lot-matcher checks."""
from __future__ import annotations

import time
from typing import Any, Dict, List, Optional, Sequence, Tuple

from rp2verif import common
from rp2verif.common import Stats
from rp2verif.lottree import Tree

METHODS = ("fifo", "lifo", "hifo", "lofo")


def single_schedules() -> List[Tuple[Tuple[int, str], ...]]:
    return [((1970, m),) for m in METHODS]


def two_year_schedules() -> List[Tuple[Tuple[int, str], ...]]:
    return [((1970, a), (2021, b)) for a in METHODS for b in METHODS if a != b]


def three_year_schedules() -> List[Tuple[Tuple[int, str], ...]]:
    return [((1970, a), (2021, b), (2022, c)) for a in METHODS for b in METHODS for c in METHODS if a != b and b != c]


def sched_str(s: Sequence[Tuple[int, str]]) -> str:
    return ",".join(f"{y}:{m}" for y, m in s) if len(s) > 1 else s[0][1]


def run_phases(
    phases: List[Dict[str, Any]],
    worker_fn: Any,
    first: Any,
    symbols: Any,
    extra: Optional[int],
    deadline: float,
    modname: Optional[str] = None,
) -> Tuple[Stats, List[Dict[str, Any]], bool]:
    total = Stats()
    info: List[Dict[str, Any]] = []
    all_complete = True
    for ph in phases:
        tree = Tree(first, symbols, ph["steps"], extra)
        completed = 0
        partial: Optional[int] = None
        t0 = time.time()
        before = total.get("states") + total.get("evaluations")
        for depth in range(ph.get("from_depth", 1), ph["depth"] + 1):
            if time.time() > deadline:
                all_complete = False
                break
            roots = tree.roots(depth)
            groups = [ph["schedules"][i : i + ph["group"]] for i in range(0, len(ph["schedules"]), ph["group"])]
            tasks = [(r, depth, g, ph["steps"], ph["dev"], ph.get("row_order", "chrono")) + ((modname,) if modname else ()) for g in groups for r in roots]
            results, done = common.pmap(worker_fn, tasks, deadline=deadline)
            for r in results:
                if r is not None:
                    total.merge(r)
            if done == len(tasks):
                completed = depth
            else:
                partial = depth
                all_complete = False
                break
        info.append(
            {
                "phase": ph["name"],
                "schedules": len(ph["schedules"]),
                "steps": list(ph["steps"]),
                "deviations": ph["dev"],
                "row_order": ph.get("row_order", "chrono"),
                "planned_depth": ph["depth"],
                "completed_depth": completed,
                "partial_depth": partial,
                "executions": total.get("states") + total.get("evaluations") - before,
                "wall_s": round(time.time() - t0, 1),
            }
        )
    return total, info, all_complete




def generic_worker(task: Tuple[Any, ...]) -> Stats:
    """task = (root, depth, schedules, steps, max_dev, row_order, module name). The property module provides FIRST,
    SYMBOLS, EXTRA (over-spent extra levels or None), judge(st, hist, specs, schedule, outcome, label) and optionally
    deviations(hist, max_dev) and CFG_KW (keyword arguments for the Configuration)."""
    from importlib import import_module

    from rp2verif import history as H
    from rp2verif.seams import compute as C

    root, depth, schedules, steps, max_dev, row_order, modname = task
    mod = import_module(modname)
    tree = Tree(mod.FIRST, mod.SYMBOLS, steps, getattr(mod, "EXTRA", None))
    cfg = C.configuration("us", **getattr(mod, "CFG_KW", {"allow_negative_balances": True}))
    st = Stats()
    for hist in tree.level(root, depth):
        variants = [(hist, {"scale": 1}, "")]
        if max_dev:
            variants = mod.deviations(hist, max_dev)
        for h2, opts, label in variants:
            specs = H.materialize(h2, scale=opts["scale"], row_order=row_order, price_scale=opts.get("price_scale", 1), **({"base": opts["base"]} if opts.get("base") else {}))
            if specs is None:
                continue
            run_cfg = cfg
            if opts.get("from_last_day"):
                from rp2verif.models.lots import parse_ts

                last = max(parse_ts(s2["timestamp"]).date() for s2 in specs)
                run_cfg = C.configuration("us", from_date=last, **getattr(mod, "CFG_KW", {"allow_negative_balances": True}))
            try:
                input_data = C.build_input(run_cfg, specs)
            except Exception as exc:  # pylint: disable=broad-except
                for sch in schedules:
                    mod.judge(st, h2, specs, sch, C.Outcome(None, exc, None), label)
                continue
            for sch in schedules:
                try:
                    eng = C.engine(sch)
                    if opts.get("prelude"):
                        # another asset of the same run is computed first with the SAME engine and method objects (as rp2_main does);
                        # its rows carry the same spreadsheet row numbers
                        C.compute_tax(cfg, eng, C.build_input(cfg, opts["prelude"], "B2"))
                    computed = C.compute_tax(run_cfg, eng, input_data)
                    out = C.Outcome(computed, None, input_data)
                except Exception as exc:  # pylint: disable=broad-except
                    out = C.Outcome(None, exc, input_data)
                mod.judge(st, h2, specs, sch, out, label)
    return st


def _to_tuple(x: Any) -> Any:
    if isinstance(x, list):
        return tuple(_to_tuple(i) for i in x)
    return x


def replay_compute(modname: str, path: str) -> int:
    """Re-execute one recorded compute-seam case without the explorer and judge it again."""
    import json
    from importlib import import_module

    from rp2verif.seams import compute as C

    mod = import_module(modname)
    with open(path, encoding="utf-8") as f:
        payload = json.load(f)
    hist = _to_tuple(payload["hist"])
    specs = payload["specs"]
    schedule = [tuple(x) for x in payload["schedule"]]
    cfg = C.configuration("us", **getattr(mod, "CFG_KW", {"allow_negative_balances": True}))
    verdicts = []
    for _ in range(2):
        st = Stats()
        try:
            input_data = C.build_input(cfg, specs)
            eng = C.engine(schedule)
            if "another asset computed first" in payload.get("deviation", "") and hasattr(mod, "PRELUDE"):
                from rp2verif import history as H

                C.compute_tax(cfg, eng, C.build_input(cfg, H.materialize(mod.PRELUDE), "B2"))
            computed = C.compute_tax(cfg, eng, input_data)
            out = C.Outcome(computed, None, input_data)
        except Exception as exc:  # pylint: disable=broad-except
            out = C.Outcome(None, exc, None)
        mod.judge(st, hist, specs, schedule, out, payload.get("deviation", ""))
        verdicts.append([v["signature"] for v in st.violations])
    if verdicts[0] != verdicts[1]:
        print("replay: two executions of the same case disagree - harness nondeterminism")
        return 2
    if verdicts[0]:
        print(f"VIOLATION property={mod.PROP} replay={path}")
        print(f"  signature: {verdicts[0][0]}")
        return 1
    print(f"replay: {path}: property {mod.PROP} holds on this case")
    return 0
