"""Schedules and the level-by-level phase runner shared by the lot-matcher checks."""
from __future__ import annotations

import time
from fractions import Fraction
from typing import Any, Dict, List, Optional, Sequence, Tuple

from rp2verif import common
from rp2verif.common import Stats
from rp2verif.lottree import Tree

METHODS = ("fifo", "lifo", "hifo", "lofo")


def single_schedules() -> List[Tuple[Tuple[int, str], ...]]:
    return [((1970, m),) for m in METHODS]


def two_year_schedules() -> List[Tuple[Tuple[int, str], ...]]:
    return [((1970, a), (2021, b)) for a in METHODS for b in METHODS if a != b]


def three_year_schedules() -> List[Tuple[Tuple[int, str], ...]]:
    return [((1970, a), (2021, b), (2022, c)) for a in METHODS for b in METHODS for c in METHODS if a != b and b != c]


def sched_str(s: Sequence[Tuple[int, str]]) -> str:
    return ",".join(f"{y}:{m}" for y, m in s) if len(s) > 1 else s[0][1]


def run_phases(
    phases: List[Dict[str, Any]],
    worker_fn: Any,
    first: Any,
    symbols: Any,
    extra: Optional[int],
    deadline: float,
    modname: Optional[str] = None,
    by_depth: bool = False,
) -> Tuple[Stats, List[Dict[str, Any]], bool]:
    """Every phase is enumerated level by level. by_depth: all phases advance together (depth 1 of every phase, then depth 2, ...), so that a budget
    that runs out cuts the deepest level of every phase instead of dropping the phases that come last."""
    total = Stats()
    all_complete = True
    state = [{"tree": Tree(first, symbols, ph["steps"], extra), "completed": 0, "partial": None, "wall": 0.0, "executions": 0, "stopped": False} for ph in phases]

    def run_level(ph: Dict[str, Any], stt: Dict[str, Any], depth: int) -> None:
        nonlocal all_complete
        if stt["stopped"]:
            return
        if time.time() > deadline:
            all_complete = False
            stt["stopped"] = True
            return
        t0 = time.time()
        before = total.get("states") + total.get("evaluations")
        roots = stt["tree"].roots(depth)
        groups = [ph["schedules"][i : i + ph["group"]] for i in range(0, len(ph["schedules"]), ph["group"])]
        tasks = [(r, depth, g, ph["steps"], ph["dev"], ph.get("row_order", "chrono")) + ((modname,) if modname else ()) for g in groups for r in roots]
        results, done = common.pmap(worker_fn, tasks, deadline=deadline)
        for r in results:
            if r is not None:
                total.merge(r)
        if done == len(tasks):
            stt["completed"] = depth
        else:
            stt["partial"] = depth
            stt["stopped"] = True
            all_complete = False
        stt["wall"] += time.time() - t0
        stt["executions"] += total.get("states") + total.get("evaluations") - before

    if by_depth:
        for depth in range(1, max((ph["depth"] for ph in phases), default=0) + 1):
            for ph, stt in zip(phases, state):
                if ph.get("from_depth", 1) <= depth <= ph["depth"]:
                    run_level(ph, stt, depth)
    else:
        for ph, stt in zip(phases, state):
            for depth in range(ph.get("from_depth", 1), ph["depth"] + 1):
                run_level(ph, stt, depth)
    info: List[Dict[str, Any]] = []
    for ph, stt in zip(phases, state):
        info.append(
            {
                "phase": ph["name"],
                "schedules": len(ph["schedules"]),
                "steps": list(ph["steps"]),
                "deviations": ph["dev"],
                "row_order": ph.get("row_order", "chrono"),
                "planned_depth": ph["depth"],
                "completed_depth": stt["completed"],
                "partial_depth": stt["partial"],
                "executions": stt["executions"],
                "wall_s": round(stt["wall"], 1),
            }
        )
    return total, info, all_complete




def front_end_input(specs: List[Dict[str, Any]], asset: str = "B1") -> Tuple[Any, Any, List[Dict[str, Any]]]:
    """The history written as a spreadsheet and read by the real parse_ods (in memory). Returns (configuration, InputData, specs as the
    oracles must see them): rows are the sheet's rows, and an acquisition that pays its fee in crypto becomes the acquisition (fee in
    fiat = fee x spot price) plus a fee-typed disposal of the fee at the same instant - RP2 creates that disposal itself, with a negative
    id; it is matched here by instant and amount (when RP2 did not create it, the oracle still expects it, under a row no fraction can name)."""
    from rp2verif import frdriver as D
    from rp2verif import history as H
    from rp2verif import sheets as S
    from rp2verif.models.lots import F, parse_ts
    from rp2verif.seams import parser as P

    sheet, keyed = D.to_sheet(specs, asset)
    cfg = P.config_for(S.canonical_layout())
    input_data = P.parse_ods(cfg, asset, P.build_doc({asset: sheet}))
    artificial = [t for t in input_data.unfiltered_out_transaction_set if t.row < 0]
    used = set()
    derived: List[Dict[str, Any]] = []
    for n, s in enumerate(keyed):
        fee = F(s.get("crypto_fee") or 0) if s["table"] == "in" else Fraction(0)
        if fee <= 0:
            derived.append(s)
            continue
        s2 = {k: v for k, v in s.items() if k != "crypto_fee"}
        s2["fiat_fee"] = H.dec(fee * F(s["spot_price"]))
        derived.append(s2)
        ts = parse_ts(s["timestamp"])
        match = next((t for t in artificial if id(t) not in used and t.timestamp == ts and F(t.crypto_fee) == fee and F(t.crypto_out_no_fee) == 0), None)
        if match is not None:
            used.add(id(match))
        derived.append({"table": "out", "timestamp": s["timestamp"], "exchange": s["exchange"], "holder": s["holder"], "transaction_type": "FEE", "spot_price": s["spot_price"],
                        "crypto_out_no_fee": "0", "crypto_fee": H.dec(fee), "row": match.row if match is not None else -(10**6) - n, "sym": f"crypto fee of row {s['row']}"})
    return cfg, input_data, derived


def schedule_from_config_file(lines: Sequence[Tuple[int, str]]) -> Any:
    """The year -> method mapping the way rp2_main obtains it: an [accounting_methods] section with the given lines IN THIS ORDER is written to a
    config file, read by the real Configuration, and `years_2_accounting_method_names` is returned (or the exception)."""
    from rp2.configuration import MAX_DATE, MIN_DATE, Configuration

    from rp2verif import sheets as S
    from rp2verif.seams import compute as C
    from rp2verif.seams import parser as P

    methods = {int(y): m for y, m in lines}  # insertion order = order of the lines in the file
    try:
        cfg = Configuration(P.write_ini(S.ini_text(S.canonical_layout(), methods=methods)), C.country("us"), MIN_DATE, MAX_DATE, True)
        return dict(cfg.years_2_accounting_method_names)
    except Exception as exc:  # pylint: disable=broad-except
        return exc


def config_schedule_worker(task: Tuple[str, List[Tuple[Any, ...]]]) -> Stats:
    """[(written schedule, order of its lines in the file)]: the mapping read back must be the written one, and a history whose every disposal
    separates the four methods is run with the engine built from the mapping read back and judged against the WRITTEN schedule."""
    import itertools
    from importlib import import_module

    from rp2verif import history as H
    from rp2verif.seams import compute as C

    modname, chunk = task
    mod = import_module(modname)
    st = Stats()
    cfg = C.configuration("us", allow_negative_balances=True)
    hist = mod.CONFIG_SCHEDULE_HISTORY
    specs = H.materialize(hist)
    for sch, perm in chunk:
        lines = [sch[i] for i in perm]
        label = "schedule read from the config file, lines in the order " + ", ".join(f"{y} = {m}" for y, m in lines)
        got = schedule_from_config_file(lines)
        st.inc("config_schedule_cases")
        base = {"history": H.hist_str(hist), "hist": hist, "specs": specs, "schedule": [list(x) for x in sch], "deviation": label, "config_lines": [list(x) for x in lines]}
        if isinstance(got, Exception):
            st.inc("states")
            st.violation(dict(base, signature=f"{mod.PROP} valid [accounting_methods] section rejected / {type(got).__name__}", what=f"{label} :: {type(got).__name__}: {got}"))
            continue
        if got != {int(y): m for y, m in sch}:
            st.violation(dict(base, signature=f"{mod.PROP} schedule read from the config file differs from the one written",
                              what=f"{label} :: RP2 uses {dict(sorted(got.items()))}, the file says {dict(sorted((int(y), m) for y, m in sch))}"))
        try:
            computed = C.compute_tax(cfg, C.engine(sorted(got.items())), C.build_input(cfg, specs))
            out = C.Outcome(computed, None, None)
        except Exception as exc:  # pylint: disable=broad-except
            out = C.Outcome(None, exc, None)
        mod.judge(st, hist, specs, [tuple(x) for x in sch], out, label)
    return st


def bundled_worker(task: Tuple[str, List[Tuple[str, str]]]) -> Stats:
    """(module name, [(file, asset)]): the inputs bundled with RP2, per asset sheet, under the four methods, the 12 two-year schedules and the file's own
    schedule, judged by the property module's judge() like any node of the tree."""
    from importlib import import_module

    from rp2verif import bundled
    from rp2verif.seams import compute as C

    modname, chunk = task
    mod = import_module(modname)
    st = Stats()
    cfg = C.configuration("us", **getattr(mod, "CFG_KW", {"allow_negative_balances": True}))
    data = bundled.load()
    for fname, asset in chunk:
        specs = data[fname][asset]
        own = bundled.schedule_of(fname)
        # year boundaries of the two-year schedules moved into the input's own time span
        years = sorted({int(s["timestamp"][:4]) for s in specs})
        mid = years[len(years) // 2]
        schedules = single_schedules() + [((1970, a), (mid, b)) for a in METHODS for b in METHODS if a != b] + ([tuple((int(y), m) for y, m in own)] if own else [])
        try:
            input_data = C.build_input(cfg, specs)
        except Exception as exc:  # pylint: disable=broad-except
            for sch in schedules:
                mod.judge(st, (), specs, sch, C.Outcome(None, exc, None), f"bundled input {fname}.ods, asset {asset}")
            continue
        for sch in schedules:
            st.inc("bundled_runs")
            try:
                out = C.Outcome(C.compute_tax(cfg, C.engine(sch), input_data), None, input_data)
            except Exception as exc:  # pylint: disable=broad-except
                out = C.Outcome(None, exc, input_data)
            mod.judge(st, (), specs, sch, out, f"bundled input {fname}.ods, asset {asset}")
    return st


def run_bundled(modname: str, total: Stats, info: List[Dict[str, Any]], deadline: float) -> bool:
    from rp2verif import bundled

    bt = bundled.sheets()
    t0 = time.time()
    res, done = common.pmap(bundled_worker, [(modname, [x]) for x in bt], deadline=max(deadline, time.time() + 60))
    for r in res:
        if r is not None:
            total.merge(r)
    info.append({"phase": "inputs bundled with RP2: every asset sheet of the 9 files x 4 methods x 12 two-year schedules (+ the file's own schedule)", "asset_sheets": len(bt),
                 "executions": total.get("bundled_runs"), "wall_s": round(time.time() - t0, 1)})
    return done == len(bt)


def generic_worker(task: Tuple[Any, ...]) -> Stats:
    """task = (root, depth, schedules, steps, max_dev, row_order, module name). The property module provides FIRST,
    SYMBOLS, EXTRA (over-spent extra levels or None), judge(st, hist, specs, schedule, outcome, label) and optionally
    deviations(hist, max_dev) and CFG_KW (keyword arguments for the Configuration)."""
    from importlib import import_module

    from rp2verif import history as H
    from rp2verif.seams import compute as C

    root, depth, schedules, steps, max_dev, row_order, modname = task
    mod = import_module(modname)
    front = max_dev == "front"  # phase through the whole front end, with its own alphabet (FE_FIRST / FE_SYMBOLS of the property module)
    tree = Tree(mod.FE_FIRST if front else mod.FIRST, mod.FE_SYMBOLS if front else mod.SYMBOLS, steps, getattr(mod, "EXTRA", None))
    cfg = C.configuration("us", **getattr(mod, "CFG_KW", {"allow_negative_balances": True}))
    st = Stats()
    for hist in tree.level(root, depth):
        variants = [(hist, {"scale": 1}, "")]
        if front:
            variants = [(hist, {"scale": 1, "front_end": True}, f"front end: spreadsheet -> parse_ods, rows {row_order}")]
        elif max_dev:
            variants = mod.deviations(hist, max_dev)
        for h2, opts, label in variants:
            specs = H.materialize(h2, scale=opts["scale"], row_order=row_order, price_scale=opts.get("price_scale", 1), **({"base": opts["base"]} if opts.get("base") else {}))
            if specs is None:
                continue
            run_cfg = cfg
            if opts.get("own_window"):
                # a date window that spans exactly the history's OWN calendar dates (first to last): it hides nothing
                from rp2verif.models.lots import parse_ts as _pt

                own = [_pt(s2["timestamp"]).date() for s2 in specs]
                run_cfg = C.configuration("us", from_date=min(own), to_date=max(own), **getattr(mod, "CFG_KW", {"allow_negative_balances": True}))
            if opts.get("from_last_day"):
                from rp2verif.models.lots import parse_ts

                last = max(parse_ts(s2["timestamp"]).date() for s2 in specs)
                run_cfg = C.configuration("us", from_date=last, **getattr(mod, "CFG_KW", {"allow_negative_balances": True}))
            try:
                if opts.get("front_end"):
                    run_cfg, input_data, specs = front_end_input(specs)
                else:
                    input_data = C.build_input(run_cfg, specs)
            except Exception as exc:  # pylint: disable=broad-except
                for sch in schedules:
                    mod.judge(st, h2, specs, sch, C.Outcome(None, exc, None), label)
                continue
            for sch in schedules:
                try:
                    eng = C.engine(sch)
                    if opts.get("prelude"):
                        # another asset of the same run is computed first with the SAME engine and method objects (as rp2_main does);
                        # its rows carry the same spreadsheet row numbers
                        C.compute_tax(cfg, eng, C.build_input(cfg, opts["prelude"], "B2"))
                    computed = C.compute_tax(run_cfg, eng, input_data)
                    out = C.Outcome(computed, None, input_data)
                except Exception as exc:  # pylint: disable=broad-except
                    out = C.Outcome(None, exc, input_data)
                mod.judge(st, h2, specs, sch, out, label)
    return st


def _to_tuple(x: Any) -> Any:
    if isinstance(x, list):
        return tuple(_to_tuple(i) for i in x)
    return x


def replay_compute(modname: str, path: str) -> int:
    """Re-execute one recorded compute-seam case without the explorer and judge it again."""
    import json
    from importlib import import_module

    from rp2verif.seams import compute as C

    mod = import_module(modname)
    with open(path, encoding="utf-8") as f:
        payload = json.load(f)
    hist = _to_tuple(payload["hist"])
    specs = payload["specs"]
    schedule = [tuple(x) for x in payload["schedule"]]
    cfg = C.configuration("us", **getattr(mod, "CFG_KW", {"allow_negative_balances": True}))
    verdicts = []
    for _ in range(2):
        st = Stats()
        try:
            run_cfg = cfg
            if "date window = first to last own date" in payload.get("deviation", ""):
                from rp2verif.models.lots import parse_ts as _pt

                own = [_pt(s2["timestamp"]).date() for s2 in specs]
                run_cfg = C.configuration("us", from_date=min(own), to_date=max(own), **getattr(mod, "CFG_KW", {"allow_negative_balances": True}))
            if payload.get("deviation", "").startswith("front end"):
                from rp2verif import history as H

                run_cfg, input_data, specs = front_end_input(H.materialize(hist, row_order="reverse" if payload["deviation"].endswith("rows reverse") else "chrono"))
            else:
                input_data = C.build_input(run_cfg, specs)
            eng = C.engine(schedule)
            if payload.get("config_lines"):
                got = schedule_from_config_file([tuple(x) for x in payload["config_lines"]])
                if isinstance(got, Exception):
                    raise got
                if got != {int(y): m for y, m in schedule}:
                    verdicts.append(["schedule read from the config file differs from the one written"])
                    continue
                eng = C.engine(sorted(got.items()))
            if "another asset computed first" in payload.get("deviation", "") and hasattr(mod, "PRELUDE"):
                from rp2verif import history as H

                C.compute_tax(cfg, eng, C.build_input(cfg, H.materialize(mod.PRELUDE), "B2"))
            computed = C.compute_tax(run_cfg, eng, input_data)
            out = C.Outcome(computed, None, input_data)
        except Exception as exc:  # pylint: disable=broad-except
            out = C.Outcome(None, exc, None)
        mod.judge(st, hist, specs, schedule, out, payload.get("deviation", ""))
        verdicts.append([v["signature"] for v in st.violations])
    if verdicts[0] != verdicts[1]:
        print("replay: two executions of the same case disagree - harness nondeterminism")
        return 2
    if verdicts[0]:
        print(f"VIOLATION property={mod.PROP} replay={path}")
        print(f"  signature: {verdicts[0][0]}")
        return 1
    print(f"replay: {path}: property {mod.PROP} holds on this case")
    return 0
