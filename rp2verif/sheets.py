"""Pure spreadsheet / configuration building blocks and the reference rendering of rows (no rp2 import).

A row dict maps field names to plain values: text fields to str, numeric fields to decimal strings (written to the cell
as float, exactly as a spreadsheet stores them) or None (empty cell). `expected` applies the documented defaults in
exact rationals.
"""
from __future__ import annotations

from fractions import Fraction
from typing import Any, Dict, List, Optional, Sequence, Tuple

FIELDS: Dict[str, List[str]] = {
    "in": ["timestamp", "asset", "exchange", "holder", "transaction_type", "spot_price", "crypto_in", "crypto_fee", "fiat_in_no_fee",
           "fiat_in_with_fee", "fiat_fee", "unique_id", "notes"],
    "out": ["timestamp", "asset", "exchange", "holder", "transaction_type", "spot_price", "crypto_out_no_fee", "crypto_fee",
            "crypto_out_with_fee", "fiat_out_no_fee", "fiat_fee", "unique_id", "notes"],
    "intra": ["timestamp", "asset", "from_exchange", "from_holder", "to_exchange", "to_holder", "spot_price", "crypto_sent",
              "crypto_received", "unique_id", "notes"],
}
OPTIONAL: Dict[str, List[str]] = {
    "in": ["crypto_fee", "fiat_in_no_fee", "fiat_in_with_fee", "fiat_fee", "unique_id", "notes"],
    "out": ["crypto_out_with_fee", "fiat_out_no_fee", "fiat_fee", "unique_id", "notes"],
    "intra": ["unique_id", "notes"],
}
NUMERIC = {"spot_price", "crypto_in", "crypto_fee", "fiat_in_no_fee", "fiat_in_with_fee", "fiat_fee", "crypto_out_no_fee", "crypto_out_with_fee",
           "fiat_out_no_fee", "crypto_sent", "crypto_received"}
KEYWORD = {"in": "IN", "out": "OUT", "intra": "INTRA"}
TABLE_END = "TABLE END"

Layout = Dict[str, Dict[str, int]]


def canonical_layout() -> Layout:
    return {t: {f: i for i, f in enumerate(fs)} for t, fs in FIELDS.items()}


def ncols(layout: Layout) -> int:
    return 1 + max(c for t in layout.values() for c in t.values())


def ini_text(layout: Layout, assets: Sequence[str] = ("B1", "B2", "B3"), exchanges: Sequence[str] = ("X1", "X2", "X3"),
             holders: Sequence[str] = ("H1", "H2"), methods: Optional[Dict[int, str]] = None, extra: str = "") -> str:
    out = ["[general]", f"assets = {', '.join(assets)}", f"exchanges = {', '.join(exchanges)}", f"holders = {', '.join(holders)}", ""]
    for t in ("in", "out", "intra"):
        out.append(f"[{t}_header]")
        for f, c in layout[t].items():
            out.append(f"{f} = {c}")
        out.append("")
    if methods:
        out.append("[accounting_methods]")
        for y, m in methods.items():
            out.append(f"{y} = {m}")
        out.append("")
    if extra:
        out.append(extra)
    return "\n".join(out)


def cell_value(field: str, v: Any) -> Any:
    if v is None:
        return None
    if field in NUMERIC and isinstance(v, str):
        try:
            return float(v)
        except ValueError:
            return v  # deliberately non-numeric text (fault injection)
    return v


def row_cells(table: str, layout: Layout, row: Dict[str, Any], width: int, junk: Any = "junk") -> List[Any]:
    cells: List[Any] = [None] * width
    used = set(layout[table].values())
    for c in range(width):
        if c not in used and junk is not None:
            cells[c] = junk
    for f, c in layout[table].items():
        cells[c] = cell_value(f, row.get(f))
    return cells


def header_cells(table: str, layout: Layout, width: int) -> List[Any]:
    cells: List[Any] = [None] * width
    used = set(layout[table].values())
    for c in range(width):
        if c not in used:
            cells[c] = "my column"
    for f, c in layout[table].items():
        cells[c] = f
    return cells


def sheet_rows(tables: Sequence[Tuple[str, Sequence[Dict[str, Any]]]], layout: Layout, width: Optional[int] = None, leading: int = 0,
               between: int = 1, trailing: int = 0) -> Tuple[List[List[Any]], List[Tuple[str, int, Dict[str, Any]]]]:
    """Cell matrix of a well-formed sheet and, per data row, (table, 1-based spreadsheet row number, row dict)."""
    width = width or ncols(layout)
    rows: List[List[Any]] = [[None] * width for _ in range(leading)]
    index: List[Tuple[str, int, Dict[str, Any]]] = []
    for ti, (table, data) in enumerate(tables):
        if ti:
            rows += [[None] * width for _ in range(between)]
        rows.append([KEYWORD[table]] + [None] * (width - 1))
        rows.append(header_cells(table, layout, width))
        for r in data:
            rows.append(row_cells(table, layout, r, width))
            index.append((table, len(rows), r))
        rows.append([TABLE_END] + [None] * (width - 1))
    rows += [[None] * width for _ in range(trailing)]
    return rows, index


def F(x: Any) -> Fraction:
    return Fraction(str(x))


def _num(row: Dict[str, Any], f: str, mapped: Dict[str, int]) -> Optional[Fraction]:
    if f not in mapped:
        return None
    v = row.get(f)
    return None if v is None else Fraction(v)


def _txt(row: Dict[str, Any], f: str, mapped: Dict[str, int]) -> str:
    if f not in mapped:
        return ""
    v = row.get(f)
    return "" if v is None else str(v)


def expected(index: Sequence[Tuple[str, int, Dict[str, Any]]], layout: Layout) -> Dict[str, List[Dict[str, Any]]]:
    """What the documentation says RP2 computes on, from the generating rows: one transaction per row with the documented
    defaults; an IN row with a crypto fee becomes the acquisition (crypto fee 0, fiat fee = fee x spot) plus one artificial
    FEE out-transaction (negative id) at the same instant. Exact rationals. 'derived' marks fields computed by a product."""
    from datetime import datetime

    out: Dict[str, List[Dict[str, Any]]] = {"in": [], "out": [], "intra": []}
    artificial = 0
    for table, rownum, r in index:
        m = layout[table]
        ts = datetime.fromisoformat(r["timestamp"])
        if table == "in":
            spot = Fraction(r["spot_price"])
            cin = Fraction(r["crypto_in"])
            cfee = _num(r, "crypto_fee", m)
            ffee = _num(r, "fiat_fee", m)
            no_fee = _num(r, "fiat_in_no_fee", m)
            with_fee = _num(r, "fiat_in_with_fee", m)
            fiat_fee = ffee if ffee is not None else (cfee * spot if cfee is not None else Fraction(0))
            e_no_fee = no_fee if no_fee is not None else cin * spot
            e_with_fee = with_fee if with_fee is not None else e_no_fee + fiat_fee
            split = cfee is not None and cfee != 0
            out["in"].append({
                "row": rownum, "timestamp": ts, "asset": r["asset"], "exchange": r["exchange"], "holder": r["holder"],
                "transaction_type": r["transaction_type"].upper(), "spot_price": spot, "crypto_in": cin,
                "crypto_fee": Fraction(0) if split else (cfee or Fraction(0)), "fiat_in_no_fee": e_no_fee, "fiat_in_with_fee": e_with_fee,
                "fiat_fee": fiat_fee, "unique_id": _txt(r, "unique_id", m), "notes": None if split else _txt(r, "notes", m),
            })
            if split:
                artificial += 1
                assert cfee is not None
                out["out"].append({
                    "row": None, "artificial": True, "timestamp": ts, "asset": r["asset"], "exchange": r["exchange"], "holder": r["holder"],
                    "transaction_type": "FEE", "spot_price": spot, "crypto_out_no_fee": Fraction(0), "crypto_fee": cfee,
                    "crypto_out_with_fee": cfee, "fiat_out_no_fee": Fraction(0), "fiat_fee": cfee * spot, "fiat_out_with_fee": cfee * spot,
                    "unique_id": _txt(r, "unique_id", m), "notes": None,
                })
        elif table == "out":
            spot = Fraction(r["spot_price"])
            cout = Fraction(r["crypto_out_no_fee"])
            cfee = Fraction(r["crypto_fee"])
            cwith = _num(r, "crypto_out_with_fee", m)
            fno = _num(r, "fiat_out_no_fee", m)
            ffee = _num(r, "fiat_fee", m)
            e_fno = fno if fno is not None else cout * spot
            e_ffee = ffee if ffee is not None else cfee * spot
            out["out"].append({
                "row": rownum, "timestamp": ts, "asset": r["asset"], "exchange": r["exchange"], "holder": r["holder"],
                "transaction_type": r["transaction_type"].upper(), "spot_price": spot, "crypto_out_no_fee": cout, "crypto_fee": cfee,
                "crypto_out_with_fee": cwith if cwith is not None else cout + cfee, "fiat_out_no_fee": e_fno, "fiat_fee": e_ffee,
                "fiat_out_with_fee": e_fno + e_ffee, "unique_id": _txt(r, "unique_id", m), "notes": _txt(r, "notes", m),
            })
        else:
            sp = _num(r, "spot_price", m)
            spot = sp if sp is not None else Fraction(0)
            sent = Fraction(r["crypto_sent"])
            recv = Fraction(r["crypto_received"])
            out["intra"].append({
                "row": rownum, "timestamp": ts, "asset": r["asset"], "from_exchange": r["from_exchange"], "from_holder": r["from_holder"],
                "to_exchange": r["to_exchange"], "to_holder": r["to_holder"], "spot_price": spot, "crypto_sent": sent, "crypto_received": recv,
                "crypto_fee": sent - recv, "fiat_fee": (sent - recv) * spot, "unique_id": _txt(r, "unique_id", m), "notes": _txt(r, "notes", m),
            })
    return out


DERIVED = {"fiat_in_no_fee", "fiat_in_with_fee", "fiat_fee", "fiat_out_no_fee", "fiat_out_with_fee"}


def compare(got: Dict[str, List[Dict[str, Any]]], want: Dict[str, List[Dict[str, Any]]]) -> Optional[str]:
    """First difference between parsed transactions and generating rows (None when equal). Sets are compared as
    multisets ordered by (instant, row); artificial rows must carry a negative id that no other row uses."""
    for table in ("in", "out", "intra"):
        g = sorted(got[table], key=lambda d: (d["timestamp"].timestamp(), 0 if d["row"] is None or d["row"] < 0 else d["row"]))
        w = sorted(want[table], key=lambda d: (d["timestamp"].timestamp(), 0 if d["row"] is None else d["row"]))
        if len(g) != len(w):
            return f"{table.upper()}: {len(g)} transactions parsed from {len(w)} expected (rows {[d['row'] for d in g]} vs {[d['row'] for d in w]})"
        ids = [d["row"] for d in g]
        if len(set(ids)) != len(ids):
            return f"{table.upper()}: duplicate transaction ids {ids}"
        for a, b in zip(g, w):
            for k, v in b.items():
                if k in ("artificial",):
                    continue
                if k == "row":
                    if v is None:
                        if not (a["row"] is not None and a["row"] < 0):
                            return f"{table.upper()}: artificial fee transaction has id {a['row']} (a negative id was expected)"
                    elif a["row"] != v:
                        return f"{table.upper()}: transaction of spreadsheet row {v} reports row {a['row']}"
                    continue
                if k == "notes" and v is None:
                    continue  # RP2 writes its own explanation there
                if k == "timestamp":
                    if a[k] != v or a[k].utcoffset() != v.utcoffset():
                        return f"{table.upper()} row {b['row']}: timestamp {a[k]} != {v}"
                    continue
                if isinstance(v, Fraction):
                    x = a[k]
                    if k in DERIVED:
                        tol = max(abs(v), Fraction(1)) / 10**15
                        if abs(x - v) > tol:
                            return f"{table.upper()} row {b['row']}: {k} {x} != {v} (derived from the row)"
                    elif x != v:
                        return f"{table.upper()} row {b['row']}: {k} {x} != {v} in the spreadsheet"
                elif a[k] != v:
                    return f"{table.upper()} row {b['row']}: {k} {a[k]!r} != {v!r} in the spreadsheet"
    return None
