"""Shared plumbing: scratch directories, evidence files, violations / replays, known findings,
deterministic parallel map.

Nothing in here imports rp2: `enter_scratch()` must run first because `rp2.logger` creates
./log and a time-stamped log file in the current directory at import time.
"""
from __future__ import annotations

import atexit
import hashlib
import json
import multiprocessing as mp
import os
import shutil
import sys
import tempfile
import time
from typing import Any, Callable, Dict, Iterable, List, Optional, Sequence, Tuple

VERIF = os.path.dirname(os.path.dirname(os.path.abspath(__file__)))
REPO = os.environ.get("RP2_REPO", "/repo")
EVIDENCE_DIR = os.environ.get("VERIF_EVIDENCE_DIR", os.path.join(VERIF, "evidence"))  # override only for mutation waves
REPLAY_DIR = os.environ.get("VERIF_REPLAY_DIR", os.path.join(VERIF, "replays"))
KNOWN_FINDINGS = os.path.join(VERIF, "known_findings.json")
NPROC = int(os.environ.get("VERIF_NPROC", str(min(16, os.cpu_count() or 1))))

_SCRATCH: Optional[str] = None
_SCRATCH_OWNER_PID: Optional[int] = None


def seed() -> int:
    try:
        return int(os.environ.get("VERIF_SEED", "0"))
    except ValueError:
        return 0


def enter_scratch() -> str:
    """Create a private scratch directory, chdir into it, arrange for its removal at exit."""
    global _SCRATCH, _SCRATCH_OWNER_PID
    if _SCRATCH is None:
        _SCRATCH = tempfile.mkdtemp(prefix="rp2verif-")
        _SCRATCH_OWNER_PID = os.getpid()
        os.chdir(_SCRATCH)
        os.environ.setdefault("TZ", "UTC")
        os.environ.setdefault("LC_ALL", "C")
        try:
            time.tzset()
        except AttributeError:
            pass

        def _cleanup() -> None:
            if os.getpid() == _SCRATCH_OWNER_PID and _SCRATCH and os.path.isdir(_SCRATCH):
                try:
                    os.chdir("/")
                except OSError:
                    pass
                shutil.rmtree(_SCRATCH, ignore_errors=True)

        atexit.register(_cleanup)
    return _SCRATCH


def scratch() -> str:
    if _SCRATCH is None:
        return enter_scratch()
    return _SCRATCH


def quiet_rp2_logger() -> None:
    """Silence RP2's console/file logging in in-process seams (no behavioural effect: the logger is write-only)."""
    import logging

    logging.getLogger("rp2").setLevel(logging.CRITICAL + 1)


# --------------------------------------------------------------------------------------
# Evidence


class Stats:
    """Mergeable exploration statistics."""

    def __init__(self) -> None:
        self.counters: Dict[str, int] = {}
        self.violations: List[Dict[str, Any]] = []
        self.samples: List[Any] = []
        self.sigs: set = set()
        self.notes: Dict[str, Any] = {}

    def inc(self, key: str, n: int = 1) -> None:
        self.counters[key] = self.counters.get(key, 0) + n

    def get(self, key: str) -> int:
        return self.counters.get(key, 0)

    def sample(self, item: Any, cap: int = 6) -> None:
        if len(self.samples) < cap:
            self.samples.append(item)

    def violation(self, v: Dict[str, Any], cap: int = 40) -> None:
        self.inc("violations_total")
        if len(self.violations) < cap:
            self.violations.append(v)

    def merge(self, other: "Stats", sample_cap: int = 12, violation_cap: int = 400) -> None:
        for k, v in other.counters.items():
            self.counters[k] = self.counters.get(k, 0) + v
        for v in other.violations:
            if len(self.violations) < violation_cap:
                self.violations.append(v)
        for s in other.samples:
            if len(self.samples) < sample_cap:
                self.samples.append(s)
        self.sigs |= other.sigs
        for k, v in other.notes.items():
            self.notes.setdefault(k, v)


def write_evidence(
    property_id: str,
    tier: str,
    level: str,
    coverage: Dict[str, Any],
    wall_s: float,
    violations: int,
    assumptions: Optional[List[str]] = None,
) -> str:
    os.makedirs(EVIDENCE_DIR, exist_ok=True)
    doc = {
        "property_id": property_id,
        "tier": tier,
        "seed": seed(),
        "level": level,
        "coverage": coverage,
        "assumptions": assumptions or [],
        "wall_s": round(wall_s, 3),
        "violations": int(violations),
    }
    path = os.path.join(EVIDENCE_DIR, f"{property_id}.json")
    tmp = path + ".tmp"
    with open(tmp, "w", encoding="utf-8") as f:
        json.dump(doc, f, indent=1, sort_keys=False, default=str)
        f.write("\n")
    os.replace(tmp, path)
    return path


# --------------------------------------------------------------------------------------
# Violations, replays, known findings


def load_known_findings() -> List[Dict[str, Any]]:
    if not os.path.exists(KNOWN_FINDINGS):
        return []
    with open(KNOWN_FINDINGS, encoding="utf-8") as f:
        return json.load(f).get("findings", [])


def write_replay(property_id: str, payload: Dict[str, Any]) -> str:
    os.makedirs(REPLAY_DIR, exist_ok=True)
    blob = json.dumps(payload, sort_keys=True, default=str)
    h = hashlib.sha1(blob.encode()).hexdigest()[:12]
    path = os.path.join(REPLAY_DIR, f"{property_id}-{h}.json")
    with open(path, "w", encoding="utf-8") as f:
        json.dump(payload, f, indent=1, sort_keys=True, default=str)
        f.write("\n")
    return path


def report(property_id: str, violations: List[Dict[str, Any]], max_lines: int = 10) -> Tuple[int, int]:
    """Print VIOLATION / KNOWN-FINDING lines. Every violation dict carries 'signature' (str) and 'what' (str)
    plus whatever is needed to replay it. Returns (number of unlisted violations, number matched by known findings)."""
    known = [k for k in load_known_findings() if k.get("property") == property_id and k.get("status") == "known"]
    by_sig: Dict[str, Dict[str, Any]] = {}
    counts: Dict[str, int] = {}
    for v in violations:
        sig = v.get("signature", "?")
        counts[sig] = counts.get(sig, 0) + 1
        by_sig.setdefault(sig, v)
    new = 0
    matched = 0
    printed = 0
    if WORKER_FAILURES:
        # an exception escaped from the exploration itself (never on the unchanged tree): the property could not be judged on that part
        # of the space, which is reported as a violation with the traceback as the replay artefact
        last = [t.strip().splitlines()[-1] if t.strip() else "?" for t in WORKER_FAILURES]
        path = write_replay(property_id, {"property": property_id, "signature": "exploration aborted by an unexpected exception", "tracebacks": WORKER_FAILURES[:5]})
        print(f"VIOLATION property={property_id} replay={path}")
        print(f"  signature: exploration aborted by an unexpected exception ({len(WORKER_FAILURES)} worker task(s))")
        print(f"  what: {last[0][:300]}")
        new += len(WORKER_FAILURES)
    for sig, v in by_sig.items():
        k = next((k for k in known if k.get("signature") == sig), None)
        if k is not None:
            matched += counts[sig]
            print(f"KNOWN-FINDING: property={property_id} {k.get('what', sig)} [{counts[sig]} occurrence(s) this run]")
            continue
        new += counts[sig]
        if printed < max_lines:
            payload = dict(v)
            payload["property"] = property_id
            path = write_replay(property_id, payload)
            print(f"VIOLATION property={property_id} replay={path}")
            print(f"  signature: {sig}")
            print(f"  what: {v.get('what')}")
            printed += 1
    sys.stdout.flush()
    return new, matched


# --------------------------------------------------------------------------------------
# Deterministic parallel map


def _rotate(seq: Sequence[Any], k: int) -> List[Any]:
    n = len(seq)
    if n == 0:
        return []
    k %= n
    return list(seq[k:]) + list(seq[:k])


_WORKER_FN: Optional[Callable[[Any], Any]] = None
WORKER_FAILURES: List[str] = []  # tracebacks of workers that died on an exception (reported as violations by report())


class _WorkerFailure:
    def __init__(self, text: str) -> None:
        self.text = text


def _call(indexed: Tuple[int, Any]) -> Tuple[int, Any, float]:
    i, task = indexed
    t0 = time.time()
    assert _WORKER_FN is not None
    try:
        res = _WORKER_FN(task)
    except Exception:  # pylint: disable=broad-except
        import traceback

        # exceptions of the code under test may carry unpicklable objects: ship the text
        res = _WorkerFailure(traceback.format_exc()[-3000:])
    return i, res, time.time() - t0


def pmap(
    fn: Callable[[Any], Any],
    tasks: Sequence[Any],
    deadline: Optional[float] = None,
    nproc: Optional[int] = None,
    init: Optional[Callable[[], None]] = None,
) -> Tuple[List[Optional[Any]], int]:
    """Run fn over tasks in forked workers. Results are returned in task order (None for tasks that were not
    run because the deadline passed), plus the number of completed tasks. The dispatch order is rotated by
    VERIF_SEED; coverage and the merged result do not depend on it when all tasks complete."""
    global _WORKER_FN
    n = len(tasks)
    results: List[Optional[Any]] = [None] * n
    if n == 0:
        return results, 0
    nproc = nproc or NPROC
    order = _rotate(list(range(n)), seed())
    _WORKER_FN = fn
    done = 0
    if nproc <= 1 or n == 1:
        if init:
            init()
        for i in order:
            if deadline is not None and time.time() > deadline:
                break
            _i, res, _dt = _call((i, tasks[i]))
            if isinstance(res, _WorkerFailure):
                WORKER_FAILURES.append(res.text)
                continue
            results[i] = res
            done += 1
        return results, done
    ctx = mp.get_context("fork")
    with ctx.Pool(processes=min(nproc, n), initializer=init) as pool:
        it = pool.imap_unordered(_call, [(i, tasks[i]) for i in order], chunksize=1)
        try:
            while True:
                timeout = None
                if deadline is not None:
                    timeout = max(0.05, deadline - time.time())
                try:
                    i, res, _dt = it.next(timeout=timeout)
                except mp.TimeoutError:
                    pool.terminate()
                    break
                if isinstance(res, _WorkerFailure):
                    WORKER_FAILURES.append(res.text)
                    continue
                results[i] = res
                done += 1
        except StopIteration:
            pass
    return results, done


def tier_from_env(default: str = "quick") -> str:
    t = os.environ.get("VERIF_TIER", default)
    return t if t in ("quick", "thorough") else default


def fmt_count(n: int) -> str:
    return f"{n:,}".replace(",", " ")
