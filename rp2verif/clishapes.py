"""Valid input shapes for the command-line checks (C16, C17, C18): name -> {asset: [(table, [row dicts])]}.
Pure data (no rp2 import). Every shape is a valid input: no account is ever overdrawn, every disposal is covered."""
from __future__ import annotations

from datetime import date, timedelta
from typing import Any, Dict, List, Optional, Sequence, Tuple

from rp2verif import sheets as S

LAYOUT = S.canonical_layout()
Tables = List[Tuple[str, List[Dict[str, Any]]]]

EARN = ("AIRDROP", "HARDFORK", "INCOME", "INTEREST", "MINING", "STAKING", "WAGES")


def _in(asset: str, ts: str, amount: str, price: str, typ: str = "BUY", ex: str = "X1", ho: str = "H1", uid: Optional[str] = None, **kw: Any) -> Dict[str, Any]:
    return dict({"timestamp": ts, "asset": asset, "exchange": ex, "holder": ho, "transaction_type": typ, "spot_price": price, "crypto_in": amount,
                 "unique_id": uid or f"{asset}-in-{ts[:10]}-{typ}"}, **kw)


def _out(asset: str, ts: str, amount: str, price: str, typ: str = "SELL", fee: str = "0", ex: str = "X1", ho: str = "H1", uid: Optional[str] = None) -> Dict[str, Any]:
    return {"timestamp": ts, "asset": asset, "exchange": ex, "holder": ho, "transaction_type": typ, "spot_price": price, "crypto_out_no_fee": amount, "crypto_fee": fee,
            "unique_id": uid or f"{asset}-out-{ts[:10]}-{typ}"}


def _intra(asset: str, ts: str, sent: str, received: str, price: Optional[str], fx: str = "X1", fh: str = "H1", tx: str = "X2", th: str = "H1") -> Dict[str, Any]:
    return {"timestamp": ts, "asset": asset, "from_exchange": fx, "from_holder": fh, "to_exchange": tx, "to_holder": th, "spot_price": price, "crypto_sent": sent,
            "crypto_received": received, "unique_id": f"{asset}-intra-{ts[:10]}"}


def basic(asset: str, y0: int = 2019) -> Tables:
    return [
        ("in", [_in(asset, f"{y0}-02-10 10:00:00+00:00", "3", "100"), _in(asset, f"{y0 + 1}-03-05 09:00:00+00:00", "0.5", "150", "INTEREST", ex="X2"),
                _in(asset, f"{y0 + 1}-08-20 12:00:00+00:00", "2", "300", fiat_fee="5")]),
        ("out", [_out(asset, f"{y0 + 1}-03-03 11:00:00+00:00", "1", "200"), _out(asset, f"{y0 + 2}-03-03 11:00:00+00:00", "2.5", "400", fee="0.1"),
                 _out(asset, f"{y0 + 2}-11-11 08:00:00+00:00", "0.2", "500", "GIFT")]),
        ("intra", [_intra(asset, f"{y0 + 1}-05-01 10:00:00+00:00", "1", "0.95", "250")]),
    ]


def shapes() -> Dict[str, Dict[str, Tables]]:
    out: Dict[str, Dict[str, Tables]] = {}
    out["single"] = {"B1": basic("B1")}
    out["multi"] = {"B1": basic("B1"), "B2": basic("B2", 2020), "B3": [("in", [_in("B3", "2021-01-15 10:00:00+00:00", "10", "7")])]}
    out["sparse_years"] = {"B1": [
        ("in", [_in("B1", "2018-06-01 10:00:00+00:00", "5", "50"), _in("B1", "2023-02-01 10:00:00+00:00", "1", "900")]),
        ("out", [_out("B1", "2021-09-09 10:00:00+00:00", "2", "700"), _out("B1", "2023-03-03 10:00:00+00:00", "0.5", "950", "LOST")]),
    ]}
    out["fully_sold"] = {"B1": [
        ("in", [_in("B1", "2019-01-01 00:00:00+00:00", "3", "10")]),
        ("out", [_out("B1", "2019-05-01 10:00:00+00:00", "1", "20"), _out("B1", "2020-05-01 10:00:00+00:00", "1", "30"), _out("B1", "2021-05-01 10:00:00+00:00", "1", "40")]),
    ], "B2": basic("B2")}
    out["income_only"] = {"B1": basic("B1"), "B2": [("in", [_in("B2", "2020-04-01 10:00:00+00:00", "0.3", "1000", "MINING"), _in("B2", "2021-04-01 10:00:00+00:00", "0.2", "2000", "STAKING")])]}
    out["transfers"] = {"B1": [
        ("in", [_in("B1", "2019-03-01 10:00:00+00:00", "4", "100")]),
        ("intra", [_intra("B1", "2019-06-01 10:00:00+00:00", "2", "2", None), _intra("B1", "2020-06-01 10:00:00+00:00", "1", "0.9", "300", tx="X3", th="H2"),
                   _intra("B1", "2021-06-01 10:00:00+00:00", "1", "1", "0", fx="X2", tx="X1")]),
        ("out", [_out("B1", "2021-07-01 10:00:00+00:00", "0.5", "500", ex="X3", ho="H2")]),
    ]}
    all_in = [_in("B1", "2019-01-02 10:00:00+00:00", "20", "100")] + [_in("B1", f"2020-0{1 + i}-15 10:00:00+00:00", "0.1", str(200 + i), t, ex=("X1", "X2", "X3")[i % 3])
                                                                       for i, t in enumerate(EARN)] + \
             [_in("B1", "2020-09-01 10:00:00+00:00", "1", "250", "GIFT"), _in("B1", "2020-09-02 10:00:00+00:00", "1", "250", "DONATE")]
    all_out = [_out("B1", f"2021-0{1 + i}-20 10:00:00+00:00", "0" if t == "FEE" else "1", str(300 + i), t, fee="0.5" if t == "FEE" else "0.01")
               for i, t in enumerate(("DONATE", "FEE", "GIFT", "LOST", "SELL", "STAKING"))]
    out["all_types"] = {"B1": [("in", all_in), ("out", all_out), ("intra", [_intra("B1", "2021-08-01 10:00:00+00:00", "2", "1.5", "400")])]}
    out["crypto_fee_purchase"] = {"B1": [
        ("in", [_in("B1", "2020-01-05 10:00:00+00:00", "2", "100", crypto_fee="0.1"), _in("B1", "2021-01-05 10:00:00+00:00", "1", "300", fiat_in_no_fee="310", fiat_in_with_fee="315",
                                                                                    fiat_fee="5")]),
        ("out", [_out("B1", "2021-06-01 10:00:00+00:00", "1.5", "400")]),
    ]}
    out["zones_at_new_year"] = {"B1": [
        ("in", [_in("B1", "2020-12-31 21:30:00-05:00", "2", "100"), _in("B1", "2021-01-01 08:00:00+09:00", "1", "120", "INTEREST", ex="X2")]),
        ("out", [_out("B1", "2021-12-31 23:59:59+00:00", "1", "300"), _out("B1", "2022-01-01 00:00:00+14:00", "1", "310", ex="X1")]),
    ]}
    out["zones_close_together"] = {"B1": [
        # instants in time order: buy (Mar 10), sale of all of it (Mar 12), buy at 08:30+09:00 = 23:30 UTC the day before, sale 2.5 hours later in UTC
        ("in", [_in("B1", "2021-03-10 10:00:00+00:00", "1", "100"), _in("B1", "2021-03-15 08:30:00+09:00", "1", "120", ex="X1", uid="late-lot")]),
        ("out", [_out("B1", "2021-03-12 10:00:00+00:00", "1", "110"), _out("B1", "2021-03-15 02:00:00+00:00", "1", "130", uid="needs-late-lot")]),
    ]}
    out["large_magnitudes"] = {"B1": [
        # a cheap token held in tens of millions of units, and an eight-digit spot price (a coin quoted in yen)
        ("in", [_in("B1", "2020-02-02 10:00:00+00:00", "25000000", "0.00000123"), _in("B1", "2020-03-03 10:00:00+00:00", "0.75", "12345678.9")]),
        ("out", [_out("B1", "2021-04-04 10:00:00+00:00", "12500000.5", "0.00000456", fee="100"), _out("B1", "2021-05-05 10:00:00+00:00", "0.25", "23456789.01", "GIFT")]),
    ]}
    out["late_starter"] = {"B1": basic("B1"), "B2": [("in", [_in("B2", "2021-02-01 10:00:00+00:00", "3", "50")]), ("out", [_out("B2", "2021-09-01 10:00:00+00:00", "1", "80")])]}
    many = [_in("B1", (date(2020, 1, 1) + timedelta(days=7 * i)).isoformat() + " 10:00:00+00:00", "0.1", str(100 + i), uid=f"B1-lot-{i}") for i in range(30)]
    out["many_lots"] = {"B1": [("in", many + [_in("B1", "2020-12-01 10:00:00+00:00", "0.05", "500", "INTEREST")]), ("out", [_out("B1", "2021-02-01 10:00:00+00:00", "2.95", "600")])]}
    # three years of small weekly purchases liquidated by two sales: far more gain/loss fractions (160) than taxable events (2)
    weekly = [_in("B1", (date(2018, 1, 3) + timedelta(days=7 * i)).isoformat() + " 10:00:00+00:00", "0.01", str(100 + i), uid=f"B1-w{i}") for i in range(160)]
    out["hundreds_of_fractions"] = {"B1": [("in", weekly), ("out", [_out("B1", "2021-03-01 10:00:00+00:00", "1", "600", uid="B1-big-sale"),
                                                                     _out("B1", "2021-04-01 10:00:00+00:00", "0.6", "650", uid="B1-rest")])]}
    # B1 has transfers (its sheet is as wide as the INTRA columns reach), B2 was only bought and sold (a narrower sheet); see SHAPE_LAYOUT
    out["narrow_sheets"] = {"B1": basic("B1"), "B2": [("in", [_in("B2", "2020-02-01 10:00:00+00:00", "3", "50")]), ("out", [_out("B2", "2021-09-01 10:00:00+00:00", "1", "80")])]}
    out["same_instant"] = {"B1": [
        ("in", [_in("B1", "2020-05-05 10:00:00+00:00", "1", "100", uid="a"), _in("B1", "2020-05-05 10:00:00+00:00", "1", "200", uid="b"),
                _in("B1", "2020-05-05 10:00:00+00:00", "0.5", "150", "INTEREST", uid="c")]),
        # two disposals at that same instant: the first uses up exactly one lot, the second follows at once
        ("out", [_out("B1", "2020-05-05 10:00:00+00:00", "1", "300", uid="d"), _out("B1", "2020-05-05 10:00:00+00:00", "0.5", "310", "GIFT", uid="d2"),
                 _out("B1", "2021-05-05 10:00:00+00:00", "1", "300", uid="e")]),
    ]}
    return out


def _wide_intra_layout() -> Any:
    """The canonical layout with the INTRA table's notes column moved far to the right: the three header sections end at different columns."""
    lay = {t: dict(cols) for t, cols in LAYOUT.items()}
    lay["intra"]["notes"] = 17
    return lay


# shapes whose sheets are written in another column layout, each sheet only as wide as ITS OWN tables need (name -> layout)
SHAPE_LAYOUT: Dict[str, Any] = {"narrow_sheets": _wide_intra_layout()}


def layout_of(name: Optional[str]) -> Any:
    return SHAPE_LAYOUT.get(name or "", LAYOUT)


def assets_of(shape: Dict[str, Tables]) -> List[str]:
    return sorted(shape)


def matrices(shape: Dict[str, Tables], name: Optional[str] = None) -> Dict[str, List[List[Any]]]:
    lay = layout_of(name)
    if lay is LAYOUT:
        return {a: S.sheet_rows(t, LAYOUT)[0] for a, t in shape.items()}
    # every sheet exactly as wide as the tables it contains require
    return {a: S.sheet_rows(t, lay, width=1 + max(c for tab, _rows in t for c in lay[tab].values()))[0] for a, t in shape.items()}


def ini_for(shape: Dict[str, Tables], methods: Optional[Dict[int, str]] = None, extra: str = "", name: Optional[str] = None) -> str:
    return S.ini_text(layout_of(name), assets=assets_of(shape), methods=methods, extra=extra)


def event_dates(shape: Dict[str, Tables]) -> List[date]:
    from datetime import datetime

    out = set()
    for tables in shape.values():
        for _t, rows in tables:
            for r in rows:
                out.add(datetime.fromisoformat(r["timestamp"]).date())
    return sorted(out)


def taxable_dates(shape: Dict[str, Tables]) -> List[date]:
    from datetime import datetime

    out = set()
    for tables in shape.values():
        for t, rows in tables:
            for r in rows:
                if t == "out" or (t == "in" and r["transaction_type"].upper() in EARN) or (t == "intra" and r["crypto_sent"] != r["crypto_received"]):
                    out.add(datetime.fromisoformat(r["timestamp"]).date())
    return sorted(out)


def filter_dates(shape: Dict[str, Tables]) -> List[date]:
    """before everything, each year start, mid-year, the day after the last taxable event of each year, after everything"""
    ev = event_dates(shape)
    tx = taxable_dates(shape)
    out = {date(2000, 1, 1), date(2030, 1, 1)}
    for y in sorted({d.year for d in ev}):
        out |= {date(y, 1, 1), date(y, 7, 1), date(y, 12, 31)}
        last = [d for d in tx if d.year == y]
        if last:
            out.add(last[-1] + timedelta(days=1))
            out.add(last[-1])  # a bound falling exactly on the day of a taxable event
            out.add(last[0])
    first_by_asset = []
    for tables in shape.values():
        ins = [r for t, rows in tables if t == "in" for r in rows]
        if ins:
            from datetime import datetime

            first_by_asset.append(min(datetime.fromisoformat(r["timestamp"]).date() for r in ins))
    for d in first_by_asset:
        out.add(d - timedelta(days=1))  # a to-date before an asset's first acquisition
    return sorted(out)
