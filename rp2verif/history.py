"""Symbolic histories -> concrete transaction specs.

A history is a tuple of items (symbol, step[, tz_minutes]); symbols are small tuples built by B/E/S/M below;
`step` names the time elapsed since the previous item. Everything is plain data (hashable, JSON-friendly).
This module does not import rp2.
"""
from __future__ import annotations

from datetime import datetime, timedelta, timezone
from fractions import Fraction
from typing import Any, Dict, List, Optional, Sequence, Tuple

ACCOUNTS = [("X1", "H1"), ("X2", "H1"), ("X1", "H2"), ("X2", "H2"), ("X3", "H1"), ("X3", "H2")]

BASE = datetime(2020, 3, 1, 12, 0, 0, tzinfo=timezone.utc)

STEPS: Dict[str, timedelta] = {
    "=": timedelta(0),
    "ms": timedelta(milliseconds=250),
    "s": timedelta(seconds=1),
    "h": timedelta(hours=1),
    "2h": timedelta(hours=2),
    "7h": timedelta(hours=7),
    "d": timedelta(days=1),
    "200d": timedelta(days=200),
    "400d": timedelta(days=400),
    "y": timedelta(days=365),
}

EARN_TYPES = ("AIRDROP", "HARDFORK", "INCOME", "INTEREST", "MINING", "STAKING", "WAGES")
OUT_TYPES = ("DONATE", "FEE", "GIFT", "LOST", "SELL", "STAKING")

ALL = "ALL"
# spreadsheet rows start at 8 so that short histories straddle the 1-digit / 2-digit row boundary (ids are compared as
# zero-padded strings inside the engine)
ROW_BASE = 8


def B(price: Any, amount: Any, acct: int = 0, typ: str = "BUY", fee: Any = 0, fiat_fee: Any = 0) -> Tuple[Any, ...]:
    """fee: crypto fee of the acquisition (only meaningful through the parser, which splits it into an artificial FEE disposal);
    fiat_fee: fee paid in fiat (part of the lot's cost, not of its spot price)."""
    if fiat_fee:
        return ("B", price, amount, acct, typ, fee, fiat_fee)
    return ("B", price, amount, acct, typ) if not fee else ("B", price, amount, acct, typ, fee)


def E(price: Any, amount: Any, typ: str = "INTEREST", acct: int = 0) -> Tuple[Any, ...]:
    return ("E", price, amount, acct, typ)


def S(amount: Any, fee: Any = 0, typ: str = "SELL", price: Any = 2, acct: int = 0) -> Tuple[Any, ...]:
    return ("S", price, amount, acct, typ, fee)


def M(sent: Any, fee: Any, src: int = 0, dst: int = 1, price: Any = 2) -> Tuple[Any, ...]:
    return ("M", price, sent, src, dst, fee)


def dec(x: Any) -> str:
    """Exact decimal string of a rational with a power-of-ten denominator."""
    f = Fraction(x) if not isinstance(x, Fraction) else x
    if f.denominator == 1:
        return str(f.numerator)
    # scale until integral
    for k in range(1, 40):
        if (f * 10**k).denominator == 1:
            n = (f * 10**k).numerator
            sign = "-" if n < 0 else ""
            digits = str(abs(n)).rjust(k + 1, "0")
            return f"{sign}{digits[:-k]}.{digits[-k:]}"
    raise ValueError(f"not a finite decimal: {f}")


def sym_str(sym: Tuple[Any, ...]) -> str:
    k = sym[0]
    if k == "B":
        t = "" if sym[4] == "BUY" else f",{sym[4]}"
        a = "" if sym[3] == 0 else f"@{sym[3]}"
        f = (f",cryptofee={sym[5]}" if len(sym) > 5 and sym[5] else "") + (f",fiatfee={sym[6]}" if len(sym) > 6 else "")
        return f"B({sym[1]},{sym[2]}{t}{f}){a}"
    if k == "E":
        t = "" if sym[4] == "INTEREST" else f",{sym[4]}"
        a = "" if sym[3] == 0 else f"@{sym[3]}"
        return f"E({sym[1]},{sym[2]}{t}){a}"
    if k == "S":
        t = "" if sym[4] == "SELL" else f",{sym[4]}"
        f = "" if not sym[5] else f",fee={sym[5]}"
        a = "" if sym[3] == 0 else f"@{sym[3]}"
        return f"S({sym[2]}{f}{t}){a}"
    if k == "M":
        return f"M({sym[2]},fee={sym[5]},{sym[3]}->{sym[4]})"
    return str(sym)


def hist_str(history: Sequence[Tuple[Any, ...]]) -> str:
    parts = []
    for item in history:
        sym, step = item[0], item[1]
        tz = item[2] if len(item) > 2 else 0
        s = sym_str(sym)
        if tz:
            s += f"[tz{tz:+d}m]"
        parts.append(("" if not parts else {"=": " = ", "d": " +1d ", "y": " +1y ", "s": " +1s ", "h": " +1h ", "ms": " +250ms "}.get(step, f" +{step} ")) + s)
    return "".join(parts)


def ts_str(t: datetime, tz_minutes: int = 0) -> str:
    return t.astimezone(timezone(timedelta(minutes=tz_minutes))).isoformat(sep=" ")


def materialize(
    history: Sequence[Tuple[Any, ...]],
    scale: Any = 1,
    row_order: str = "chrono",
    base: datetime = BASE,
    uid: bool = False,
    price_scale: Any = 1,
) -> Optional[List[Dict[str, Any]]]:
    """Concrete specs for a history, or None when a symbol is not enabled (S(ALL) with nothing left).

    scale multiplies every crypto amount (same integer structure, other magnitudes).
    row_order: 'chrono' -> spreadsheet rows ascend with time; 'reverse' -> they descend (sheet order != time order).
    """
    scale = Fraction(scale)
    price_scale = Fraction(price_scale)
    t = base
    specs: List[Dict[str, Any]] = []
    balance = Fraction(0)
    n = len(history)
    for i, item in enumerate(history):
        sym, step = item[0], item[1]
        tz = item[2] if len(item) > 2 else 0
        t = t + STEPS[step]
        ts = ts_str(t, tz)
        row = ROW_BASE + (i if row_order == "chrono" else (n - 1 - i))
        kind = sym[0]
        spec: Dict[str, Any]
        if kind in ("B", "E"):
            _, price, amount, acct, typ = sym[:5]
            a = Fraction(amount) * scale
            ex, ho = ACCOUNTS[acct]
            spec = {
                "table": "in",
                "timestamp": ts,
                "exchange": ex,
                "holder": ho,
                "transaction_type": typ,
                "spot_price": dec(Fraction(price) * price_scale),
                "crypto_in": dec(a),
                "row": row,
            }
            balance += a
            if len(sym) > 5 and sym[5]:
                spec["crypto_fee"] = dec(Fraction(sym[5]) * scale)
                balance -= Fraction(sym[5]) * scale
            if len(sym) > 6:
                spec["fiat_fee"] = dec(Fraction(sym[6]))
        elif kind == "S":
            _, price, amount, acct, typ, fee = sym
            f = Fraction(fee) * scale
            if amount == ALL:
                a = balance - f
                if a <= 0:
                    return None
            else:
                a = Fraction(amount) * scale
            ex, ho = ACCOUNTS[acct]
            if typ == "FEE":
                # fee-typed out transaction: the whole outgoing amount is the fee
                spec = {
                    "table": "out",
                    "timestamp": ts,
                    "exchange": ex,
                    "holder": ho,
                    "transaction_type": typ,
                    "spot_price": dec(Fraction(price) * price_scale),
                    "crypto_out_no_fee": "0",
                    "crypto_fee": dec(a + f),
                    "row": row,
                }
            else:
                spec = {
                    "table": "out",
                    "timestamp": ts,
                    "exchange": ex,
                    "holder": ho,
                    "transaction_type": typ,
                    "spot_price": dec(Fraction(price) * price_scale),
                    "crypto_out_no_fee": dec(a),
                    "crypto_fee": dec(f),
                    "row": row,
                }
            balance -= a + f
        elif kind == "M":
            _, price, sent, src, dst, fee = sym
            s = Fraction(sent) * scale
            f = Fraction(fee) * scale
            fx, fh = ACCOUNTS[src]
            tx, th = ACCOUNTS[dst]
            spec = {
                "table": "intra",
                "timestamp": ts,
                "from_exchange": fx,
                "from_holder": fh,
                "to_exchange": tx,
                "to_holder": th,
                "spot_price": dec(Fraction(price) * price_scale),
                "crypto_sent": dec(s),
                "crypto_received": dec(s - f),
                "row": row,
            }
            balance -= f
        else:
            raise ValueError(f"unknown symbol {sym}")
        spec["sym"] = sym_str(sym)
        if uid:
            spec["unique_id"] = f"u{row}"
        specs.append(spec)
    return specs
