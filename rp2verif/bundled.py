"""The inputs bundled with RP2 (input/*.ods with their config/*.ini) as plain specs for the differential checks (C06, C09, C10).

The files are read by the real parse_ods with the real config (this is not the oracle: the checks that use these specs compare two runs of
the real code with each other, or a run's summary with its own detail). Every transaction becomes one spec keyed by its spreadsheet row;
the fee-only disposals that the parser creates for acquisitions paying a crypto fee keep their negative ids."""
from __future__ import annotations

import os
from typing import Any, Dict, List, Optional

from rp2verif import common

FILES = [("crypto_example", "crypto_example"), ("test_data", "test_data"), ("test_data2", "test_data"), ("test_data3", "test_data"), ("test_data4", "test_data4"),
         ("test_hifo", "test_data"), ("test_hifo2", "test_data"), ("test_many_year_data", "test_data"), ("test_data_multi_method", "test_data_multi_method")]
_CACHE: Dict[int, Dict[str, Dict[str, List[Dict[str, Any]]]]] = {}


# names as the compute seam's configuration knows them
_EX = {"BlockFi": "X1", "Coinbase": "X2", "Coinbase Pro": "X3", "Kraken": "X4"}
_HO = {"Bob": "H1", "Alice": "H2"}


def _s(x: Any) -> Optional[str]:
    return None if x is None else str(x)


def load() -> Dict[str, Dict[str, List[Dict[str, Any]]]]:
    """{file: {asset: specs}} for every bundled input and every configured asset that has a sheet with an IN table."""
    key = os.getpid()
    if key in _CACHE:
        return _CACHE[key]
    from rp2.configuration import MAX_DATE, MIN_DATE, Configuration
    from rp2.ods_parser import open_ods, parse_ods

    from rp2verif.seams import compute as C

    out: Dict[str, Dict[str, List[Dict[str, Any]]]] = {}
    for ods, ini in FILES:
        cfg = Configuration(os.path.join(common.REPO, "config", ini + ".ini"), C.country("us"), MIN_DATE, MAX_DATE, True)
        handle = open_ods(cfg, os.path.join(common.REPO, "input", ods + ".ods"))
        per_asset: Dict[str, List[Dict[str, Any]]] = {}
        for asset in sorted(cfg.assets):
            data = parse_ods(cfg, asset, handle)
            specs: List[Dict[str, Any]] = []
            for t in data.unfiltered_in_transaction_set:
                specs.append({"table": "in", "timestamp": str(t.timestamp), "exchange": _EX[t.exchange], "holder": _HO[t.holder], "transaction_type": t.transaction_type.value,
                              "spot_price": _s(t.spot_price), "crypto_in": _s(t.crypto_in), "fiat_in_no_fee": _s(t.fiat_in_no_fee), "fiat_in_with_fee": _s(t.fiat_in_with_fee),
                              "fiat_fee": _s(t.fiat_fee), "row": t.row, "unique_id": t.unique_id, "sym": f"{t.transaction_type.value.upper()} {t.crypto_in}"})
            for t in data.unfiltered_out_transaction_set:
                specs.append({"table": "out", "timestamp": str(t.timestamp), "exchange": _EX[t.exchange], "holder": _HO[t.holder], "transaction_type": t.transaction_type.value,
                              "spot_price": _s(t.spot_price), "crypto_out_no_fee": _s(t.crypto_out_no_fee), "crypto_fee": _s(t.crypto_fee), "crypto_out_with_fee": _s(t.crypto_out_with_fee),
                              "fiat_out_no_fee": _s(t.fiat_out_no_fee) if not t.fiat_out_no_fee.is_zero() else None, "fiat_fee": _s(t.fiat_fee), "row": t.row, "unique_id": t.unique_id,
                              "sym": f"{t.transaction_type.value.upper()} {t.crypto_out_with_fee}"})
            for t in data.unfiltered_intra_transaction_set:
                specs.append({"table": "intra", "timestamp": str(t.timestamp), "from_exchange": _EX[t.from_exchange], "from_holder": _HO[t.from_holder], "to_exchange": _EX[t.to_exchange],
                              "to_holder": _HO[t.to_holder], "spot_price": _s(t.spot_price), "crypto_sent": _s(t.crypto_sent), "crypto_received": _s(t.crypto_received), "row": t.row,
                              "unique_id": t.unique_id, "sym": f"MOVE {t.crypto_sent}"})
            per_asset[asset] = specs
        out[ods] = per_asset
    _CACHE[key] = out
    return out


def sheets() -> List[Any]:
    """(file, asset) pairs, without importing rp2 (parents that fork command-line runs must stay rp2-free)"""
    return [(f, a) for f, _ in FILES for a in (("BTC", "ETH") if f == "crypto_example" else ("B1", "B2", "B3", "B4"))]


def names() -> List[str]:
    return [f for f, _ in FILES]


def schedule_of(name: str) -> Optional[List[Any]]:
    """the [accounting_methods] schedule of the input's own config file, if it has one"""
    if name == "test_data_multi_method":
        from rp2.configuration import MAX_DATE, MIN_DATE, Configuration

        from rp2verif.seams import compute as C

        cfg = Configuration(os.path.join(common.REPO, "config", "test_data_multi_method.ini"), C.country("us"), MIN_DATE, MAX_DATE, True)
        return sorted(cfg.years_2_accounting_method_names.items())
    return None
