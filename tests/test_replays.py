"""Plain unit tests that replay recorded counter-examples WITHOUT the explorer.

* regressions/<F#>/<check>.json - one artefact per repaired defect (recorded by running the check against a worktree with the
  fix reverted, tools/regress.sh): on the current tree each must report that the property holds, so a returning defect fails here.
* replays/*.json - whatever the last runs of the checks reported (normally none on the unchanged tree).

Run:  /venv/bin/python -m pytest -q /verif/tests
"""
import glob
import json
import os
import subprocess

import pytest

VERIF = os.path.dirname(os.path.dirname(os.path.abspath(__file__)))
CASES = sorted(glob.glob(os.path.join(VERIF, "regressions", "*", "*.json"))) + sorted(glob.glob(os.path.join(VERIF, "replays", "*.json")))


@pytest.mark.parametrize("path", CASES, ids=[os.path.relpath(p, VERIF) for p in CASES])
def test_replay_holds(path: str) -> None:
    with open(path, encoding="utf-8") as f:
        prop = json.load(f).get("property") or os.path.basename(path).split("-")[0].split(".")[0]
    p = subprocess.run([os.path.join(VERIF, "check"), prop, "--replay", path], cwd=VERIF, capture_output=True, text=True, timeout=600, check=False)
    assert p.returncode == 0, p.stdout[-2000:] + p.stderr[-2000:]
