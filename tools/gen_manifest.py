#!/venv/bin/python
"""Regenerate /verif/MANIFEST.json from the table below (kept here so that it stays consistent and valid)."""
import json
import os
import sys

VERIF = os.path.dirname(os.path.dirname(os.path.abspath(__file__)))

CHECKS = {
    "C01": dict(
        category="model_checking",
        technique="explicit-state exploration of the real lot matcher over the prefix tree of histories (bounded exhaustive, deviation-bounded), order monitor + reference matcher",
        text="Every valid single-asset history over a 14-symbol alphabet up to depth 4 (thorough 5) is executed from scratch through compute_tax under each of fifo/lifo/hifo/lofo, every two-year (thorough: three-year) method schedule, with 1 (2) deviations in disposal type / UTC offset / amount scale and with sheet order reversed; on every node a monitor checks that no strictly better-ranked lot with balance was passed over, and tie-free traces must equal the reference matcher's pairing. This is the deepest level the family offers for a sequential matcher: all interleavings within the bound, none sampled. Also: a purchase carrying a large fiat fee at every purchase position (fee-inclusive unit cost ranks differently from spot price) and same-instant events falling under different methods of a schedule. A front-end phase (spreadsheet -> parse_ods -> compute_tax, both sheet orders) runs the tree over an alphabet with acquisitions paying a crypto fee (the parser's fee-only disposals take lots in method order too). Further phases: steps of 250 ms with reversed sheet order; every two- and three-year schedule x every order of the [accounting_methods] lines written to a config file and read back by the real Configuration. The 34 asset sheets of the 9 inputs bundled with RP2 are judged by the same monitor under 4 methods x 12 two-year schedules. Also: another asset computed first with the same engine and method objects (its lots on the same rows, ranked differently).",
        note="Trusts the reference model in rp2verif/models/lots.py (40 lines, exact rationals); histories outside the alphabet or deeper than the completed depth are not covered; ties on the primary key are deliberately not ordered.",
        design="3/C01",
    ),
    "C02": dict(
        category="model_checking",
        technique="explicit-state exploration of the real lot matcher over valid and over-spending histories, cumulative-balance reference model, exact conservation sums",
        text="Every history (valid or over-spending, S(ALL) enabled at every node) up to depth 4 (thorough 5) x every method / two-year schedule x amount scales down to 1e-11: the run must fail iff some instant's cumulative disposals exceed cumulative acquisitions; on success per-disposal sums equal amount+fee exactly, no lot is overspent or later than its event, and a sold-out holding leaves every lot exactly exhausted. Also: a fee-bearing transfer inside one account, and every history re-run with a from-date on its last day (acceptance and rejection must not depend on the window). A front-end phase (spreadsheet -> parse_ods -> compute_tax, both sheet orders) runs valid and over-spending histories over an alphabet with purchases and income paying a crypto fee (the parser's fee-only disposals must be covered and conserved like any other). Also steps of 250 ms with reversed sheet order. The 34 asset sheets of the 9 inputs bundled with RP2 are judged by the same oracle under 4 methods x 12 two-year schedules.",
        note="Trusts the cumulative-balance model; over-spent nodes are extended one level only (every longer extension contains the same uncovered disposal).",
        design="3/C02",
    ),
    "C03": dict(
        category="exploration",
        technique="bounded-exhaustive enumeration of all sequences over the 21 (table, type) symbols on the real compute_tax, independent taxability table",
        text="All sequences of up to 4 (thorough 5) transactions over every (table, transaction type) pair - 10 IN types, 6 OUT types, a SELL with fee, a fee-typed disposal at spot price 0, transfers with and without fee, a fee-bearing transfer to self - after a covering purchase, one day apart and with every placement of one (two) same-instant steps, under fifo and hifo (thorough: all four): the taxable event set and the gain/loss set must contain exactly the rows an independent table says, once, in full, lot-less with zero cost for income, under the row's own type. Also through the whole front end (spreadsheet -> parse_ods -> compute_tax): acquisitions of every one of the 10 IN types paying their fee in crypto (the fee is a fee-typed disposal at the same instant), sequences up to 2 (thorough 3) after a covering purchase, both sheet orders, fifo / hifo. Also: every timestamp late in the evening at -05:00 / early in the morning at +09:00 with a date window from the first to the last own date (it hides nothing, every taxable row must still be reported).",
        note="The taxability table is written independently in rp2verif/props/c03.py. Negative STAKING acquisitions and transfer fees worth < 5e-14 fiat are outside the alphabet.",
        design="3/C03",
    ),
    "C04": dict(
        category="exploration",
        technique="exhaustive product of value palettes over history shapes on the real compute_tax, exact rational oracle",
        text="Full product of 4 (thorough 8) amounts from 1e-11 to 1e9 and 4 (7) prices from 1e-8 to 1e7 with fee variants, exchange-supplied fiat columns (absent / consistent / deliberately different) and disposal classes (SELL, FEE-typed, transfer fee) over six history shapes; proceeds, cost basis and gain of every fraction are recomputed from the constructor arguments in exact rationals (1e-15 relative) and parts must re-assemble to the whole. Every taxable row of every case must be covered by fractions that add back to its whole taxable fiat value (an event that silently disappears or whose amount is rounded is reported).",
        note="A grid, not all decimals. Float contamination is visible only through the FloatOperation trap raising or an error above 1e-15 relative.",
        design="3/C04",
    ),
    "C05": dict(
        category="exploration",
        technique="exhaustive boundary grid (instants x deltas x UTC offsets x country configurations) on the real compute_tax, epoch-second oracle",
        text="6 acquisition instants (leap day, year end) x 9 deltas around the threshold (P-1s, P, P+1s, +-12h, +-1d, 0, 2P) x 25 UTC-offset pairs (half-hour offsets east and west included) x 10 country configurations (us, es, jp, ie, generic with 6 LONG_TERM_CAPITAL_GAINS values), plus a sale straddling the threshold over two lots and income events; the LONG/SHORT flag of every fraction and the split of the yearly summary are compared with floor(elapsed seconds / 86400) >= P. The LONG/SHORT column of rp2_full_report.ods and tax_report_us.ods is read back for disposals, transfer fees and income on both sides of the threshold. Thorough: 54 acquisition instants (first and last second of every month of 2019-2020), 18 deltas from 250 ms to a day on both sides, 81 offset pairs, 15 country configurations, the disposal rotating over sale / gift / fee / transfer fee (about 1 M cases).",
        note="Only the listed thresholds and instants; timedelta arithmetic of the oracle is on epoch seconds.",
        design="3/C05",
    ),
    "C06": dict(
        category="exploration",
        technique="bounded-exhaustive prefix tree of multi-year histories x every window of interest on the real pipeline, regrouping oracle in exact rationals",
        text="Every multi-year history (steps +1d/+200d/+365d, 8 symbols) up to depth 3 under fifo/lifo/hifo and depth 4 under hifo (thorough: depth 4 x 4 methods, depth 5 x 2) is run once unfiltered and once per to-date / from-date of interest (on and the day before every transaction, year ends, year starts, mid-year); the yearly list must have exactly the keys of the detail fractions, once, with equal sums of all four figures, and grand totals equal to the detail table. Also: timestamps at -05:00 on New Year's Eve (own year != UTC year) and 2-hour steps across two midnights with one transaction written in another UTC offset (own dates not monotonic along the instants). The 34 asset sheets of the 9 inputs bundled with RP2 x 4 methods x every to-/from-date of interest are judged too. Also: lots whose exchange-supplied fiat columns do not add up (with-fee != no-fee + fee).",
        note="In the mixed-offset phase the summary is compared with the detail table of the same run; the long/short flag of a fraction is taken from RP2 (C05 decides it).",
        design="3/C06",
    ),
    "C07": dict(
        category="exploration",
        technique="bounded-exhaustive 3-account prefix tree on the real pipeline x to-dates x -n, reference account replay + lot reconciliation",
        text="Every history up to depth 3 (thorough 4) over 30 symbols on 3 accounts (2 exchanges x 2 holders; buys, income, sales, transfers with/without fee between all ordered pairs and to self) x fifo/hifo x -n off/on x every to-date: each account's acquired / sent / received / final equals the reference replay, every touched account appears once, and the sum of final balances equals acquired lots minus consumed fractions. Also: amounts x 1e-6 (transfer fees worth far less than a cent), and the balance tables of rp2_full_report read back, incl. same-instant purchases paying crypto fees without unique ids. Also: every timestamp at -05:00 / +09:00 (own date != UTC date) x every to-date. The 34 asset sheets of the 9 inputs bundled with RP2 (4 exchanges x 2 holders) x every to-date x -n off / on are judged too. Also: every from-date x every to-date (a from-date never changes a balance).",
        note="Per-holder totals exist only in the report and are read back in C13.",
        design="3/C07",
    ),
    "C08": dict(
        category="model_checking",
        technique="explicit-state exploration of the 3-account history tree (transient overdrafts, intraday steps, epsilon deviations) on the real pipeline against a reference replay with an explicit either-zone",
        text="Every history up to depth 3 (thorough 4) over the 30-symbol 3-account alphabet with steps same-instant / +1h / +1d, including overdrawing, transiently overdrawing and globally over-spent histories, plus amount+epsilon (4e-11 .. 1e-9) at every outgoing position, x -n off/on: must be rejected when every ordering of equal-instant groups dips below -1e-10, must be accepted when no ordering goes negative, the error names an overdrawn account, and with -n the negative balance is reported. Also: reversed sheet order, and every history of depth <= 2 plus first-funds-pay-a-crypto-fee histories through the real command line without and with -n. Also: transactions 250 ms apart within one second around a crypto-fee purchase, through the command line.",
        note="What is acquired at an instant is available to what leaves at that instant (must accept); the order among the transfers and disposals of one instant and dips between -1e-10 and 0 are left open by the property and are not judged. 'No report is produced' is decided end-to-end in C12.",
        design="3/C08",
    ),
    "C09": dict(
        category="model_checking",
        technique="explicit-state exploration of every (node, cut) edge of the history prefix tree on the real pipeline; differential oracle: run of the whole history vs run of the truncated history vs run limited by to-date",
        text="Every valid history up to depth 4 (thorough 5) over an alphabet biased to continuations the method would prefer (all three price ranks, newer lots, income lots, partial and spanning sales, transfer fee) x fifo/lifo/hifo/lofo and the 12 two-year schedules, steps same-instant / +1h / +1d / +1y, both sheet orders: for every cut between two distinct timestamps the figures of all events at or before the cut (pairing, amounts, proceeds, cost, gain, long/short, k/n, closed years) equal those of the truncated history, and the run limited by to-date equals the truncated run on the complete canonical dump (rows, running sums, sold %, counts, yearly lines, balances, average price). Checked on every edge, it holds for every continuation within the bound by transitivity. Also: two assets computed in one run with one engine (asset B1 grows in 2020+, asset B2 lies wholly in 2019): B2's complete dump must equal the run truncated at 2019-12-31. Every cut of the 34 asset sheets of the 9 inputs bundled with RP2 x 4 methods is judged too. Also: two or three same-instant disposals over two lots plus a continuation with the sheet order reversed, the truncated history re-written as its own sheet (every remaining row renumbered, here across 9 -> 10), transactions identified by their position in time.",
        note="Differential: both sides are the real code, so a defect that affects both runs identically is invisible here (C01/C02 judge absolute correctness). Single UTC offset.",
        design="3/C09",
    ),
    "C10": dict(
        category="exploration",
        technique="bounded-exhaustive history tree x every from<=to pair over the dates of interest on the real pipeline; differential oracle against the unfiltered and the to-date-only run",
        text="Every valid multi-year history up to depth 3 (thorough 4) over 7 symbols x fifo/hifo (thorough: 4 methods) x EVERY window from <= to (either bound may be absent) over each transaction date +-1 day, Jan 1 / Jul 1 / Dec 31 of touched years and dates outside the history (150-250 windows per history), also with every timestamp in +09:00 so that own calendar date != UTC date: rows and fractions shown are exactly those dated in the window, every figure equals the unfiltered run, counts / balances / average price equal the to-date-only run, yearly lines are the to-date-only lines of years >= from-year. Fraction counts k/n are also recomputed from the unfiltered run's own fraction list cut at the to-date; an [accounting_methods] schedule x from-dates goes through the real CLI. The 34 asset sheets of the 9 inputs bundled with RP2 x every window over their transaction dates and year bounds x fifo / hifo are judged too. The sold-% of every lot shown must equal the fractions shown for it / its amount.",
        note="Differential against the real code's own unfiltered run; the sold-% column is per-window by definition and not judged.",
        design="3/C10",
    ),
    "C11": dict(
        category="exploration",
        technique="bounded-exhaustive enumeration of column layouts, table orders and blank-row placements on the real parse_ods (in-memory and saved .ods), field-by-field reference rendering in exact rationals",
        text="Per table every rotation, every transposition, the reversal, every proper subset of optional columns mapped (in place and compacted) and an unmapped column at every gap; all 6 table orders x leading / between / trailing blank rows, table subsets, a saved-and-reopened file for every rotation, and pairs of layout deviations across two tables (thorough: rotation+transposition inside a table, table order x rotation; 65 000 layouts). Every case parses a typed palette (every IN / OUT type, every optional-cell pattern including crypto fee with exchange-supplied fiat totals, transfers with / without fee and spot price, self-transfer; every numeric cell a different 11-decimal value, zones differ, sheet order is not time order) and each field of each parsed transaction is compared with the generating row; crypto-fee acquisitions must split into acquisition + artificial FEE disposal with a negative id. The palette includes an OUT row with a crypto fee and an explicit fiat fee of 0 (a supplied value, not an empty cell).",
        note="Numeric cells carry at most 15 significant digits (what a double holds exactly); derived fiat products are compared at 1e-15 relative.",
        design="3/C11",
    ),
    "C12": dict(
        category="fault_enumeration",
        technique="fault enumeration at every position: all row-kind sequences and all single/pair edits of well-formed sheets against a reference acceptor; every field / config / command-line fault class on parse_ods, Configuration and the real CLI",
        text="(a1) every sequence of the 11 row kinds (incl. a row of figures whose first cell is the number 0) up to length 5 (thorough 7) and (a2) every single edit of 23 well-formed sheets plus every pair of edits of 4 (thorough: all 23) are parsed by the real parse_ods and compared with a reference acceptor of the documented grammar: broken structure must raise, well-formed sheets must return exactly their rows; (b) every documented field fault class at every row x field of a 3-asset base input must raise; (c) every config fault must raise in Configuration; (d,e) one instance of every fault class per asset and table (thorough: every single case), structure faults in the second asset, every config and command-line fault (-m vs [accounting_methods], method not accepted by the country, from > to, malformed dates, unknown language, missing / wrong-suffix / corrupt files, overdraft without -n) through the real command line: exit status != 0, an error message, no report file. Field faults in the last row of a table are also run with -t the day before / -f the day after the faulty row (rows outside the report window are input all the same).",
        note="Sequences the documentation does not classify (repeated empty table, table without header line, wrong-shaped row in header position) are counted and not judged. The base input is first run unmodified and must succeed, so rejections are not vacuous.",
        design="3/C12",
    ),
    "C13": dict(
        category="exploration",
        technique="bounded-exhaustive history tree x second asset x windows x methods x country/language through spreadsheet -> parse_ods -> compute_tax -> the real rp2_full_report plugin in a forked child; .ods read back (direct content.xml reader) and compared cell by cell",
        text="Asset B1 ranges over every valid history up to depth 3 over a 9-symbol multi-year alphabet (incl. a purchase with crypto fee, FEE-typed and gift disposals, fee-bearing transfer), asset B2 over fixed histories with colliding spreadsheet row numbers, unique ids and notes on all rows, sheet order different from time order; x 10 windows (none / from / to / both, empty and one-day windows) x fifo / hifo / fifo->hifo schedule x 6 country-language pairs (slice). Each case runs the real generator once; the written file is read back and every In/Out/Intra row, running sum and sold % (also recomputed independently from the input rows), summary line, balance and holder total, average price, detail row (amount, proceeds, cost, gain, LONG/SHORT, k/n labels, lot figures), the Summary sheet and the Legend (method(s), filters) is compared with the ComputedData the generator was given. Balances, the rows shown and the taxable events of the window are also recomputed from the input rows alone (reference account replay, own calendar dates); depth <= 2 also with every timestamp at +09:00 / -05:00; the second asset includes a transfer inside one account. The data of the 9 inputs bundled with RP2 (all asset sheets of a file in one run, up to 41 transactions per sheet, 4 exchanges x 2 holders, exchange-supplied fiat values) x methods x 10 date windows is read back the same way. Also: every timestamp at -05:00 / +09:00 around New Year (own year != UTC year).",
        note="Plain cells are doubles (1e-11 relative); the correctness of the ComputedData itself is C01-C10's business. Tables are located by their translated titles, not by recomputing RP2's row arithmetic.",
        design="3/C13",
    ),
    "C19": dict(
        category="exploration",
        technique="same generator seam as C13 x every date window; every HYPERLINK formula is followed into the sheet and row it names and the unique id found there is compared",
        text="Two assets sharing spreadsheet row numbers (their row orders run in opposite directions so that late rows of one collide with early rows of the other), unique ids on all rows; B1 = every valid history up to depth 3; depth <= 2: every from-only / to-only window over the dates of interest and from+to pairs (thorough: all pairs; 3 second assets and both row orders for the shortest histories - 72 000 report runs), depth 3: from-dates on / after each transaction. For every taxable-event and acquired-lot cell of '<asset> Tax': the link names '<asset> In-Out' and the row holding the same unique id, or the cell carries no link when the window hides the transaction; every Summary cell links to the first shown detail row of that year in that asset's Tax sheet (or carries no link when none is shown). The data of the 9 inputs bundled with RP2 (all asset sheets of a file in one run, up to 41 transactions per sheet, 4 exchanges x 2 holders, exchange-supplied fiat values) x methods x 10 date windows is read back the same way. Also: every timestamp at -05:00 / +09:00 around New Year (own year != UTC year).",
        note="Identity of a transaction in the report = the unique id printed on its In-Out row.",
        design="3/C19",
    ),
    "C20": dict(
        category="exploration",
        technique="exhaustive enumeration of year -> content assignments x second asset x row order x language through spreadsheet -> parse_ods -> compute_tax -> the real tax_report_jp plugin in a forked child; .ods read back, cross-sheet formulas compared as text",
        text="Asset B1: every assignment of the years 2019..2022 to {nothing, buy, sell, transfer with fee} that never over-spends, plus every 3-year (thorough: every 4-year) assignment over a 7-item menu (buy+sell, fee-less transfer, a Dec 31 purchase at -05:00 whose UTC year is the next one); x second asset (none or one of 4 fixed patterns incl. one that starts later than B1) x row order (years first seen in / out of order across the IN / OUT / INTRA tables) x language en / kl. Read-back: exactly one '<asset>_<year>' sheet per asset-year with transactions, each of the year's value-carrying transactions once in time order (month, day, client, type, purchase and sale amounts and yen), one '<year>_Summary' per year with one line per asset whose formulas point into that asset-year sheet and at its closing-balance cells, and every opening balance = the closing-balance cells of the same asset's most recent earlier sheet, or 0. The menu includes two transactions at the same instant written in different UTC offsets. The fee-in-yen column is compared too. The data of the 9 inputs bundled with RP2 (up to 4 assets, several years) is read back the same way. One of the menu's sales pays its fee in yen (fiat_fee column).",
        note="Cells are located through the sheet's own structure (the purchases formula anchors the balance block), not by recomputing RP2's row arithmetic.",
        design="3/C20",
    ),
    "C14": dict(
        category="exploration",
        technique="exhaustive enumeration of pairs of the 14 taxable kinds over two assets x windows x {US, IE} through spreadsheet -> parse_ods -> compute_tax -> the real tax_report plugin in a forked child; .ods read back",
        text="For the US and the IE plugin and windows none / from / to: every single kind, every ordered pair (k1 on asset B1, k2 on asset B2) of the 14 taxable kinds (7 income types, DONATE / FEE / GIFT / LOST / SELL / STAKING disposals, fee-bearing transfer), pairs of kinds on one asset six months apart, all 14 kinds on one and on both assets (thorough: triples); every disposal spans a lot older and a lot younger than one year. Read-back: each fraction of the window is on exactly one row of exactly the sheet an independent type -> sheet table names (fee / lost / transfer fee on Investment Expenses), with amount, dates acquired and sold in the plugin's format, proceeds, cost basis, gain, LONG/SHORT, k/n labels and type string as computed; no stray or duplicate rows; sheets without rows absent; Legend = method and filters. The taxable events inside the window are also recomputed from the input rows (own date, both bounds inclusive), incl. a window whose from = to = the day of an event. All 14 kinds on both assets are also run under lifo / hifo / lofo (US). The data of the 9 inputs bundled with RP2 (all asset sheets of a file in one run, up to 41 transactions per sheet, 4 exchanges x 2 holders, exchange-supplied fiat values) x methods x 10 date windows is read back the same way. Also: the second asset's transactions at the very same instants as the first asset's, written in UTC (another calendar day as written).",
        note="Rows are matched to fractions by (asset, event unique id, lot unique id).",
        design="3/C14",
    ),
    "C15": dict(
        category="exploration",
        technique="bounded-exhaustive multi-holder history tree x second asset x methods x to-dates through spreadsheet -> parse_ods -> compute_tax -> the real open_positions plugin in a forked child; .ods read back against exact-rational reference figures",
        text="Asset B1 = every history up to depth 3 over 10 symbols on 3 accounts (2 exchanges x 2 holders; steps +1h / +1d / +1y) in which no account is ever overdrawn, asset B2 = none or one of 2 fixed multi-holder histories; x fifo / lifo / hifo / lofo x to-date (none, year ends, every transaction day and the day before). Read-back of both sheets: exactly the holders / (exchange, holder) accounts with a positive balance of an asset that has unsold lot parts; crypto balance = reference account replay of the input rows; per-unit cost = cost (with fees) of the unconsumed lot parts / total balance; unrealized cost per row; weights add up to 100 % on both sheets; realized cost of the detail fractions + unrealized cost in the report = cost of everything acquired. Lots and their cost (amount x price + fee, crypto fee x price) are also recomputed from the input rows (own date <= to-date); depth <= 2 also with every timestamp at +09:00 / -05:00; one lot of asset B2 is bought with a crypto fee. Depth <= 2 also with every price x 1/320000 (per-unit cost of a fraction of a cent). Also: an exchange that is called like one of the holders.",
        note="The consumed part of each lot is taken from the computed fractions (C01/C02 judge those); balances are recomputed independently.",
        design="3/C15",
    ),
    "C16": dict(
        category="exploration",
        technique="exhaustive option matrix (entry point x method x language x [accounting_methods] x input shape x date filter) on the real command-line entry points, each run in a fresh forked process",
        text="Every supported configuration - rp2_us / jp / es / ie / generic x -m absent and every accepted method x -g absent (the country default, incl. rp2_jp's 'ja') and every language with templates x [accounting_methods] absent / one entry (also with a year other than 1970) / several entries - crossed with 12 input shapes (single / multi asset, sparse years, asset fully sold in thirds, income-only asset, transfers with / without fee and spot price across holders, all 14 types, crypto-fee purchase, mixed zones at New Year, an asset starting years after the others, a disposal over 30 lots, equal timestamps) and date filters from {before all, year start / mid-year / year end, the day after a year's last taxable event, the day before an asset's first acquisition, after all} (quick: no filter + 3 rotating filters per pair and all single-bound filters for plain rp2_us, 2 264 runs; thorough: all single-bound filters everywhere, all from <= to pairs for the us / jp defaults). Each run must exit 0, write every report of the country as a readable spreadsheet and nothing else, and log no traceback. Shapes now also include 160 weekly purchases liquidated by two sales (160 fractions for 2 events) and two same-instant disposals of which the first uses up exactly one lot. The 9 inputs bundled with RP2 (input/*.ods with their config files, run with -n as RP2's own golden-file tests do) are crossed with rp2_us x every method, the other entry points with default options, and 5 date windows. One shape is written in a layout whose INTRA section reaches further right than IN / OUT, every sheet only as wide as its own tables need (an asset without transfers has a narrower sheet).",
        note="Excluded as unsupported: rp2_jp with -f and -t together (refused by message), schedules that do not cover the input's first year.",
        design="3/C16",
    ),
    "C17": dict(
        category="exploration",
        technique="exhaustive enumeration of row/table permutations, asset subsets, a measured-coverage set of hash seeds and output-directory histories; differential oracle between two executions of the real code",
        text="(a) for every valid history of the report driver's tree up to depth 3 (2 152 bases) and a 7-row base: every permutation of the rows inside each table x every order of the tables (up to 720 per base) x fifo / hifo through parse_ods + compute_tax - canonical dumps keyed by unique id must be equal; (b) every non-empty subset of 3 assets whose rows share spreadsheet row numbers x fifo / lifo / hifo / lofo through the generator seam with one accounting engine for the run, each asset compared with itself processed alone (ComputedData dump, its In-Out and Tax sheets, its Summary lines, its tax-report rows); (c) the real rp2_us under the PYTHONHASHSEED values needed to observe all 6 / 6 / 2 iteration orders of the asset / exchange / holder sets (plus 6 more; thorough 16) on 3 (4) inputs - content.xml and styles.xml of every report byte-identical; (d) every sequence of <= 2 earlier runs from a 4-item option menu into the same output directory, and the same run twice, vs a run into a fresh directory. The subset runs are repeated with from-dates that hide part / all of some assets' events of a year. Thorough: (a) on the 52 000 histories up to depth 4; (c) 48+ hash seeds on all input shapes; (d) every sequence of <= 3 earlier runs.",
        note="No hand-written expected values. The hash-seed dimension is a finite set with a measured order-coverage criterion, not all 2^32 seeds.",
        design="3/C17",
    ),
    "C18": dict(
        category="exploration",
        technique="monitored real CLI runs (audit hook installed before the first rp2 import + sha256 snapshot of the private directory tree, two consecutive runs per case) over valid and invalid inputs; exhaustive syntactic walk over every module of the package",
        text="Dynamic: 12 (entry point, options) configurations x filters / prefix / -a on 3 valid input shapes (thorough: all 12 shapes), an [accounting_methods] run per shape, and one instance of every fault class of C12's end-to-end list (bad fields per table, broken sheets, malformed configs, conflicting options, missing / corrupt files, overdraft), each run twice into the same output directory in a fresh interpreter: no socket / subprocess / exec / spawn / fork / urllib / http / ftp / smtp / webbrowser audit event; every file opened for writing, renamed, removed or created lies under the output directory or ./log; the snapshot shows changes only there; input .ods and .ini byte-identical. Static: all 52 modules of the rp2 package parsed, every import and call name checked against a deny-list of networking / process / host-query facilities. Invalid inputs include deprecated-JSON configuration files; foreign files placed in the output directory beforehand (archive copies named like a report plus a suffix) must survive byte-identical. Symbolic links named exactly like reports of the run (one to a file in an archive directory outside the output directory, one dangling) are placed in the output directory: what they point at must stay untouched and nothing may appear next to it.",
        note="Behaviour on paths no explored run reaches is covered only by the syntactic walk; the audit hook sees CPython-level events, not raw system calls of C extensions.",
        design="3/C18",
    ),
}

NOT_YET = {
}


def main() -> int:
    props = [json.loads(l) for l in open(os.path.join(VERIF, "properties.jsonl"), encoding="utf-8")]
    checks = []
    na = []
    for p in props:
        pid = p["id"]
        c = CHECKS.get(pid)
        if c is None:
            na.append({"property_id": pid, "reason": NOT_YET.get(pid, "check not built yet in this revision of /verif (planned in DESIGN.md section 3); not claimed")})
            continue
        checks.append(
            {
                "property_id": pid,
                "quick_cmd": f"./check {pid} --tier quick",
                "thorough_cmd": f"./check {pid} --tier thorough",
                "evidence_file": f"/verif/evidence/{pid}.json",
                "replay_cmd_template": f"./check {pid} --replay {{path}}",
                "engine": "rp2verif",
                "level_claimed": {"category": c["category"], "text": c["text"], "design_ref": f"DESIGN.md section {c['design']}"},
                "level_note": c["note"],
                "technique": c["technique"],
            }
        )
    manifest = {
        "version": 1,
        "setup_cmd": "/venv/bin/python -m compileall -q rp2verif check >/dev/null && /venv/bin/python -c 'import rp2, ezodf, prezzemolo'",
        "hooks": {
            "guard": "RP2_VERIF",
            "enable": "no source hooks are needed: checks import /repo/src as it is on disk (editable install) and observe through public APIs; RP2_VERIF=1 is exported by ./check for completeness",
            "baseline_off_cmd": "cd /repo && /venv/bin/python -m pytest -ra -q -p no:cacheprovider --timeout=900 --continue-on-collection-errors",
            "source_commits": [],
            "add_only": True,
        },
        "engines": [
            {
                "name": "rp2verif",
                "path": "/verif/rp2verif",
                "serves_properties": [c["property_id"] for c in checks],
                "kind_free_text": "hand-written explicit-state / bounded-exhaustive explorer in Python driving the real rp2 code (compute, parser, generator and CLI seams) against boring reference models in exact arithmetic",
            }
        ],
        "checks": checks,
        "notes": "Known findings: /verif/known_findings.json. Replays: /verif/replays/. Seeded property-breaking changes: /verif/seeded/. VERIF_SEED only rotates task dispatch order; coverage is identical for every seed.",
        "not_applicable": na,
    }
    with open(os.path.join(VERIF, "MANIFEST.json"), "w", encoding="utf-8") as f:
        json.dump(manifest, f, indent=1)
        f.write("\n")
    return 0


if __name__ == "__main__":
    sys.exit(main())
