#!/venv/bin/python
"""Regenerate /verif/MANIFEST.json from the table below (kept here so that it stays consistent and valid)."""
import json
import os
import sys

VERIF = os.path.dirname(os.path.dirname(os.path.abspath(__file__)))

CHECKS = {
    "C01": dict(
        category="model_checking",
        technique="explicit-state exploration of the real lot matcher over the prefix tree of histories (bounded exhaustive, deviation-bounded), order monitor + reference matcher",
        text="Every valid single-asset history over a 14-symbol alphabet up to depth 4 (thorough 5) is executed from scratch through compute_tax under each of fifo/lifo/hifo/lofo, every two-year (thorough: three-year) method schedule, with 1 (2) deviations in disposal type / UTC offset / amount scale and with sheet order reversed; on every node a monitor checks that no strictly better-ranked lot with balance was passed over, and tie-free traces must equal the reference matcher's pairing. This is the deepest level the family offers for a sequential matcher: all interleavings within the bound, none sampled.",
        note="Trusts the reference model in rp2verif/models/lots.py (40 lines, exact rationals); histories outside the alphabet or deeper than the completed depth are not covered; ties on the primary key are deliberately not ordered.",
        design="3/C01",
    ),
    "C02": dict(
        category="model_checking",
        technique="explicit-state exploration of the real lot matcher over valid and over-spending histories, cumulative-balance reference model, exact conservation sums",
        text="Every history (valid or over-spending, S(ALL) enabled at every node) up to depth 4 (thorough 5) x every method / two-year schedule x amount scales down to 1e-11: the run must fail iff some instant's cumulative disposals exceed cumulative acquisitions; on success per-disposal sums equal amount+fee exactly, no lot is overspent or later than its event, and a sold-out holding leaves every lot exactly exhausted.",
        note="Trusts the cumulative-balance model; over-spent nodes are extended one level only (every longer extension contains the same uncovered disposal).",
        design="3/C02",
    ),
}

NOT_YET = {
}


def main() -> int:
    props = [json.loads(l) for l in open(os.path.join(VERIF, "properties.jsonl"), encoding="utf-8")]
    checks = []
    na = []
    for p in props:
        pid = p["id"]
        c = CHECKS.get(pid)
        if c is None:
            na.append({"property_id": pid, "reason": NOT_YET.get(pid, "check not built yet in this revision of /verif (planned in DESIGN.md section 3); not claimed")})
            continue
        checks.append(
            {
                "property_id": pid,
                "quick_cmd": f"./check {pid} --tier quick",
                "thorough_cmd": f"./check {pid} --tier thorough",
                "evidence_file": f"/verif/evidence/{pid}.json",
                "replay_cmd_template": f"./check {pid} --replay {{path}}",
                "engine": "rp2verif",
                "level_claimed": {"category": c["category"], "text": c["text"], "design_ref": f"DESIGN.md section {c['design']}"},
                "level_note": c["note"],
                "technique": c["technique"],
            }
        )
    manifest = {
        "version": 1,
        "setup_cmd": "/venv/bin/python -m compileall -q rp2verif check >/dev/null && /venv/bin/python -c 'import rp2, ezodf, prezzemolo'",
        "hooks": {
            "guard": "RP2_VERIF",
            "enable": "no source hooks are needed: checks import /repo/src as it is on disk (editable install) and observe through public APIs; RP2_VERIF=1 is exported by ./check for completeness",
            "baseline_off_cmd": "cd /repo && /venv/bin/python -m pytest -ra -q -p no:cacheprovider --timeout=900 --continue-on-collection-errors",
            "source_commits": [],
            "add_only": True,
        },
        "engines": [
            {
                "name": "rp2verif",
                "path": "/verif/rp2verif",
                "serves_properties": [c["property_id"] for c in checks],
                "kind_free_text": "hand-written explicit-state / bounded-exhaustive explorer in Python driving the real rp2 code (compute, parser, generator and CLI seams) against boring reference models in exact arithmetic",
            }
        ],
        "checks": checks,
        "notes": "Known findings: /verif/known_findings.json. Replays: /verif/replays/. Seeded property-breaking changes: /verif/seeded/. VERIF_SEED only rotates task dispatch order; coverage is identical for every seed.",
        "not_applicable": na,
    }
    with open(os.path.join(VERIF, "MANIFEST.json"), "w", encoding="utf-8") as f:
        json.dump(manifest, f, indent=1)
        f.write("\n")
    return 0


if __name__ == "__main__":
    sys.exit(main())
