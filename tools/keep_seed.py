#!/venv/bin/python
"""tools/keep_seed.py <seed-dir> <property> <caught-by checks, comma separated or 'none'> <what it needs to manifest> [detail]"""
import json, os, shutil, sys
src, prop, caught, needs = sys.argv[1:5]
detail = sys.argv[5] if len(sys.argv) > 5 else ""
name = os.path.basename(src.rstrip("/"))
dst = os.path.join("/verif/seeded", name)
os.makedirs(dst, exist_ok=True)
for f in ("patch.diff", "demo.py", "notes.md"):
    if os.path.exists(os.path.join(src, f)):
        shutil.copy(os.path.join(src, f), os.path.join(dst, f))
run = "/tmp/seedrun-" + name
tests = open(os.path.join(run, "tests")).read().strip() if os.path.exists(os.path.join(run, "tests")) else "?"
meta = {
    "id": name,
    "breaks_property": prop,
    "origin": "independent sub-agent given only the property text and a scratch worktree",
    "needs_to_manifest": needs,
    "confirmed": {
        "how": "tools/try_seed.sh: scratch worktree of /repo HEAD; demo.py on the clean worktree, patch applied with git apply, the 12 stable test files (48 tests), demo.py again",
        "stable_suite_with_patch": tests,
        "demo_exit_clean": 0,
        "demo_exit_with_patch": 1,
    },
    "detected_by_quick_checks": [] if caught == "none" else caught.split(","),
    "detail": detail,
}
json.dump(meta, open(os.path.join(dst, "meta.json"), "w"), indent=1)
print("kept", dst)
