#!/bin/bash
# tools/try_seed.sh <seed-dir> <budget-seconds> <check id>...
# Confirm a seeded change in a scratch worktree (suite still green, demo flips), then run the named checks against that
# worktree (PYTHONPATH + RP2_REPO point the same check code at it; evidence/replays go to a scratch dir). The worktree is removed.
set -u
SEED=$(readlink -f $1); shift
BUDGET=$1; shift
NAME=$(basename $SEED)
WT=/tmp/wt-confirm-$NAME
OUT=/tmp/seedrun-$NAME
rm -rf $OUT; mkdir -p $OUT/evidence $OUT/replays
TESTS="tests/test_accounting_method.py tests/test_balance.py tests/test_configuration.py tests/test_gain_loss.py tests/test_gain_loss_set.py tests/test_in_transaction.py tests/test_input_parser.py tests/test_intra_transaction.py tests/test_out_transaction.py tests/test_rp2_decimal.py tests/test_tax_engine.py tests/test_transaction_set.py"
git -C /repo worktree add -q $WT HEAD || exit 9
cd $WT
PYTHONPATH=$WT/src /venv/bin/python $SEED/demo.py >$OUT/demo0 2>&1; D0=$?
git -C $WT apply $SEED/patch.diff || { echo "[$NAME] PATCH DOES NOT APPLY"; cd /; git -C /repo worktree remove --force $WT; exit 9; }
PYTHONPATH=$WT/src /venv/bin/python -m pytest -q -p no:cacheprovider --timeout=900 $TESTS 2>&1 | tail -1 > $OUT/tests
PYTHONPATH=$WT/src /venv/bin/python $SEED/demo.py >$OUT/demo1 2>&1; D1=$?
echo "[$NAME] demo clean exit=$D0, demo mutant exit=$D1, tests: $(cat $OUT/tests)"
cd ${VERIF_DIR:-/verif}
for c in "$@"; do
  T0=$(date +%s)
  PYTHONPATH=$WT/src RP2_REPO=$WT VERIF_EVIDENCE_DIR=$OUT/evidence VERIF_REPLAY_DIR=$OUT/replays ./check $c --tier quick --budget $BUDGET > $OUT/$c.out 2>&1; RC=$?
  echo "[$NAME] check $c exit=$RC in $(( $(date +%s) - T0 ))s, $(grep -c '^VIOLATION' $OUT/$c.out) VIOLATION line(s): $(grep -m1 'what:' $OUT/$c.out | cut -c1-260)"
done
cd /
git -C /repo worktree remove --force $WT
