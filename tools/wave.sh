#!/bin/bash
# tools/wave.sh <log> <seed-dir>...  : try each seed against its own property's quick check (and any extra checks named in $EXTRA)
LOG=$1; shift
for d in "$@"; do
  n=$(basename $d); p=${n:0:3}
  if [ -f $d/notes.md ] && head -1 $d/notes.md | grep -q "^PROPERTY: C"; then p=$(head -1 $d/notes.md | sed 's/PROPERTY: *//' | cut -c1-3); fi
  if [ ! -f $d/patch.diff ] || [ ! -f $d/demo.py ]; then echo "[$n] incomplete (no patch.diff / demo.py)" >> $LOG; continue; fi
  ${VERIF_DIR:-/verif}/tools/try_seed.sh $d 280 $p $EXTRA 2>&1 | grep -v WARNING >> $LOG
done
echo "WAVE DONE" >> $LOG
