#!/bin/bash
# tools/regress.sh <F#> <budget> : revert one fix in a scratch worktree, run the checks that are supposed to see the defect,
# keep the first replay artefact of each under /verif/regressions/<F#>/
F=$1; BUDGET=$2
WT=/tmp/wt-regress-$F; OUT=/tmp/regress-$F
rm -rf $OUT; mkdir -p $OUT/evidence $OUT/replays /verif/regressions/$F
git -C /repo worktree add -q $WT HEAD || exit 9
git -C $WT apply /tmp/fixseeds/$F/patch.diff || { echo "[$F] reverse patch does not apply"; git -C /repo worktree remove --force $WT; exit 9; }
cd /verif
for c in $(cat /tmp/fixseeds/$F/checks); do
  rm -f $OUT/replays/*
  PYTHONPATH=$WT/src RP2_REPO=$WT VERIF_EVIDENCE_DIR=$OUT/evidence VERIF_REPLAY_DIR=$OUT/replays ./check $c --tier quick --budget $BUDGET > $OUT/$c.out 2>&1; RC=$?
  echo "[$F] with the fix reverted: check $c exit=$RC, $(grep -c '^VIOLATION' $OUT/$c.out) VIOLATION line(s): $(grep -m1 'what:' $OUT/$c.out | cut -c1-220)"
  first=$(grep -m1 '^VIOLATION' $OUT/$c.out | sed 's/.*replay=//')
  if [ -n "$first" ] && [ -f "$first" ]; then cp "$first" /verif/regressions/$F/$c.json; fi
done
cd /; git -C /repo worktree remove --force $WT
