#!/bin/bash
# tools/regress.sh <F#> <budget> : revert one fix (git show <commit> | git apply -R) in a scratch worktree of /repo, run the checks that
# are supposed to see the defect, keep the first replay artefact of each under /verif/regressions/<F#>/
F=$1; BUDGET=${2:-280}
case $F in
  F1) COMMIT=0b1e1eb; CHECKS="C01 C02";;
  F2) COMMIT=5769dcc; CHECKS="C13 C16";;
  F3) COMMIT=4e9839e; CHECKS="C19";;
  F4) COMMIT=e2679b2; CHECKS="C20";;
  F5) COMMIT=49f2da8; CHECKS="C16";;
  F6) COMMIT=dc0e79c; CHECKS="C14 C16";;
  F7) COMMIT=5e13046; CHECKS="C16";;
  F8) COMMIT=b34ba3e; CHECKS="C01";;
  *) echo "unknown finding $F"; exit 2;;
esac
WT=/tmp/wt-regress-$F; OUT=/tmp/regress-$F
rm -rf $OUT; mkdir -p $OUT/evidence $OUT/replays /verif/regressions/$F
git -C /repo worktree add -q $WT HEAD || exit 9
git -C /repo show $COMMIT -- src | git -C $WT apply -R || { echo "[$F] reverse patch does not apply"; git -C /repo worktree remove --force $WT; exit 9; }
cd /verif
for c in $CHECKS; do
  rm -f $OUT/replays/*
  PYTHONPATH=$WT/src RP2_REPO=$WT VERIF_EVIDENCE_DIR=$OUT/evidence VERIF_REPLAY_DIR=$OUT/replays ./check $c --tier quick --budget $BUDGET > $OUT/$c.out 2>&1; RC=$?
  echo "[$F] with the fix reverted: check $c exit=$RC, $(grep -c '^VIOLATION' $OUT/$c.out) VIOLATION line(s): $(grep -m1 'what:' $OUT/$c.out | cut -c1-220)"
  first=$(grep -m1 '^VIOLATION' $OUT/$c.out | sed 's/.*replay=//')
  if [ -n "$first" ] && [ -f "$first" ]; then cp "$first" /verif/regressions/$F/$c.json; fi
  # the recorded artefact must fail here (fix reverted) ...
  PYTHONPATH=$WT/src RP2_REPO=$WT VERIF_EVIDENCE_DIR=$OUT/evidence VERIF_REPLAY_DIR=$OUT/replays ./check $c --replay /verif/regressions/$F/$c.json > $OUT/$c.replay 2>&1
  echo "[$F] replay of regressions/$F/$c.json with the fix reverted: exit=$?"
done
cd /; git -C /repo worktree remove --force $WT; rm -rf $OUT
